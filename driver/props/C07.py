"""C07 - the control-file reader recovers every paragraph, field and value."""
import re
import lib
import gen
import debgen

EDIT = [b"\n", b"\r", b" ", b"\t", b":", b"#", b".", b"a", b"K", b"\r\n", b" .\n", b"\n\n", b"A: b\n", b" x\n", b"\xc3\xa9", b"\x00", b"-",
        b"\xc2\xa0", b"\xc2\x85", b"\xe2\x80\x83", b"\xe3\x80\x80", b"\xc2", b"\xa0", b"\x0b", b"\x0c"]


def parse_paras(res):
    """canonical text -> list of (keys, n) for the invariant check"""
    out = []
    for m in re.finditer(r"\( (\[\]|\[ (?:x[0-9a-f]* )+\]) (\[\]|\[ (?:x[0-9a-f]* )+\]) (\d+) \)", res):
        keys = m.group(1).split()[1:-1] if m.group(1) != "[]" else []
        vals = m.group(2).split()[1:-1] if m.group(2) != "[]" else []
        out.append((keys, vals, int(m.group(3))))
    return out


def check_invariant(chk, case, res):
    for keys, vals, n in parse_paras(res):
        if len(set(keys)) != len(keys) or n != len(keys) or len(keys) == 0:
            chk.violate({"kind": "property", "case": lib.show_case(case), "impl": res[:1500],
                         "explanation": "a returned paragraph does not have a value for exactly the fields it lists, each listed once"})
            return


def three_ways(chk, stream, texts, spec=True):
    ca = [("rall", [t]) for t in texts]
    ia, ma = chk.run_both(ca)
    chk.compare(stream + "/all", ca, ia, ma, spec=spec)
    for c, r in zip(ca, ia):
        check_invariant(chk, c, r)
    cn = [("rnext", [t]) for t in texts]
    i_n, m_n = chk.run_both(cn)
    chk.compare(stream + "/next-loop", cn, i_n, m_n, nontrivial=lambda c, r: r.startswith("[ "), spec=spec)
    for c, r in zip(cn, i_n):
        check_invariant(chk, c, r)
    for op in ("rslice", "rdecode", "rparas"):
        cs = [(op, [t]) for t in texts]
        i_s = chk.run_impl(cs)
        chk.record(stream + "/" + op, cs, i_s)
        for c, r, ra in zip(cs, i_s, ia):
            if r != ra:
                chk.violate({"kind": "property", "case": lib.show_case(c), "all_at_once": ra[:1500], op: r[:1500],
                             "explanation": "reading all at once and %s see different paragraph sequences" % {"rslice": "decoding into a slice", "rdecode": "Decoder.Decode in a loop", "rparas": "decoding into a []control.Paragraph"}[op]})
    # one reader used both ways: Next k times, then All for the rest
    cm = [("rmix", [t, str(k).encode()]) for t in texts[::3] for k in (1, 2)]
    i_m = chk.run_impl(cm)
    chk.record(stream + "/next-then-all", cm, i_m)
    all_of = dict(zip(texts, ia))
    for c, r in zip(cm, i_m):
        ra = all_of[c[1][0]]
        if (ra.startswith("ok ") and r != ra) or (not ra.startswith("ok ") and r != "err"):
            chk.violate({"kind": "property", "case": lib.show_case(c), "all_at_once": ra[:1500], "next_then_all": r[:1500],
                         "explanation": "reading some paragraphs with Next and the rest with All on the same reader does not give the sequence that All alone gives"})
    for c, ra, rn in zip(ca, ia, i_n):
        okseq = ra[3:] + " eof" if ra.startswith("ok ") else None
        if (okseq is not None and rn != okseq) or (okseq is None and not rn.endswith(" err")):
            chk.violate({"kind": "property", "case": lib.show_case(c), "all_at_once": ra[:1500], "next_loop": rn[:1500],
                         "explanation": "reading paragraph by paragraph and reading all at once see different sequences"})
    return ia


def run(chk):
    rng = chk.rng

    # decoding into a slice of the CALLER's struct type, which has private fields next to the exported ones: a document that
    # happens to have fields of those names is read all the same (no panic), the private fields keep their values
    pc = [("cprivate", [d]) for d in (b"Package: a\nseen: yes\n\nPackage: b\n", b"Package: a\ncount: x\nnote: n\ntags: t u\n", b"seen: no\nPackage: c\n\nnote: z\nPackage: d\n", b"Package: only\n")]
    for c, r in zip(pc, chk.run_impl(pc)):
        names = [l.split(b": ", 1)[1] for l in c[1][0].split(b"\n") if l.startswith(b"Package: ")]
        want = "ok x%s x%s | ok %s" % (names[0].hex(), b"Package: p\n".hex(), "[ " + " ".join("x" + n.hex() for n in names) + " ]")
        if r != want:
            chk.violate({"kind": "property", "case": lib.show_case(c), "impl": r[:300], "expected": want,
                         "explanation": "a document with fields named like private fields of the target struct was not decoded like any other (panic, error, a private field changed or written)"})
    # 1. documents from the model x layouts: the model of the document is the oracle
    docs = [debgen.rand_doc(rng) for _ in range(chk.n(3000, 60000))]
    texts, want = [], []
    for d in docs:
        t = debgen.render(d, rng, free=rng.random() < 0.8)
        if debgen.has_uspace(t):
            continue
        texts.append(t); want.append(debgen.expected(d))
    ia = three_ways(chk, "model-documents", texts)
    for t, r, w in zip(texts, ia, want):
        if r != w:
            chk.violate({"kind": "property", "case": lib.show_case(("rall", [t])), "impl": r[:2000], "expected": w[:2000],
                         "explanation": "a well-formed deb822 document was not read back as its paragraphs, fields and logical lines"})
    # 1b. physical lines longer than any read buffer (4096 bytes and more): judged against the document model on the
    #     implementation only (the extracted model's list functions are quadratic in the line length)
    ltexts, lwant = [], []
    for _ in range(chk.n(60, 600)):
        d = debgen.rand_doc(rng, 2, 3, 2, long=0.35)
        t = debgen.render(d, rng, free=rng.random() < 0.5)
        if debgen.has_uspace(t):
            continue
        ltexts.append(t); lwant.append(debgen.expected(d))
    lc = [("rall", [t]) for t in ltexts]
    li = chk.run_impl(lc)
    chk.record("long-lines", lc, li)
    for c, r, w in zip(lc, li, lwant):
        if r != w:
            chk.violate({"kind": "property", "case": lib.show_case(("rall", [c[1][0][:300] + b"...<%d bytes>" % len(c[1][0])])), "impl": r[:600], "expected": w[:600],
                         "explanation": "a well-formed deb822 document with physical lines of 4096 bytes and more was not read back as its paragraphs, fields and logical lines"})
    # 1c. the source: how the bytes are chunked by the reader underneath must not matter (one byte per Read, short reads,
    # data together with EOF, 7-byte chunks, a caller-made 16-byte bufio.Reader), nor where a 4096-byte buffer fill
    # happens to end (CRLF documents of 2-3 buffer fills whose line ends sweep over every offset)
    stexts = list(texts[::max(1, len(texts) // chk.n(250, 2500))])
    for pad in range(0, 34):
        body = b"".join(b"Field-%03d: value %03d\r\n" % (k, k) + (b" continued %03d\r\n" % k if k % 3 == 0 else b"") + (b"\r\n" if k % 7 == 6 else b"")
                        for k in range(330))
        stexts.append(b"Pad: " + b"x" * pad + b"\r\n" + body)
    sref = chk.run_impl([("rall", [t]) for t in stexts])
    for variant in (b"onebyte", b"half", b"dataerr", b"chunk7", b"bufio16"):
        sc = [("rsrc", [variant, t]) for t in stexts]
        si = chk.run_impl(sc)
        chk.record("source-" + variant.decode(), sc, si)
        for c, r, w in zip(sc, si, sref):
            if r != w:
                chk.violate({"kind": "property", "case": lib.show_case(("rsrc", [variant, c[1][1][:300] + (b"...<%d bytes>" % len(c[1][1]) if len(c[1][1]) > 300 else b"")])),
                             "impl": r[:600], "plain_reader": w[:600],
                             "explanation": "the same document read through a source that delivers its bytes in other chunks (%s) gives other paragraphs" % variant.decode()})
    # the padded CRLF documents themselves: 330 fields in 48 paragraphs, whatever the padding
    for t, r in zip(stexts[-34:], sref[-34:]):
        if not r.startswith("ok [ ") or r.count("( [") != 48:
            chk.violate({"kind": "property", "case": lib.show_case(("rall", [t[:200] + b"...<%d bytes>" % len(t)])), "impl": r[:300],
                         "explanation": "a CRLF document of several buffer fills was not read as its 48 paragraphs"})
    # 2. mutations: orphan continuation, duplicate field, stray CR, whitespace-only lines, missing colon ...
    mut = []
    for t in rng.sample(texts, min(len(texts), chk.n(600, 6000))):
        for _ in range(5):
            mut.append(gen.mutate(rng, t, EDIT))
    mut += [b" x\nA: b\n", b"A: 1\nA: 2\n", b"A: 1\n \nB: 2\n", b"A\n", b":\n", b"A:\n .\n a\n", b"\n\n\n", b"", b"#\n", b"A: b", b"A: b\r", b"A: b\n\r", b" \nA: b\n",
            b"A: b\n\n \nB: c\n", b"A : b\n", b"A:b:c\n", b"\tA: b\n", b"A: b\n#c\n c\n"]
    three_ways(chk, "mutations", mut, spec=False)
    # 3. raw bytes
    raw = [gen.rand_bytes(rng, 30, EDIT) for _ in range(chk.n(2500, 50000))]
    raw += [gen.rand_bytes(rng, 24) for _ in range(chk.n(500, 10000))]
    raw += gen.words([b"A", b":", b" ", b"\n", b"\r", b"#", b"."], 4)
    raw += [b"A:\xc2\xa0b\xc2\xa0\n \xe2\x80\x83c\xe2\x80\x83\n", b"\xc2\xa0A\xc2\xa0: b\n", b"A: b\n \xc2\xa0\n", b" \xc2\xa0\nA: b\n", b"A: b\n \xc2\xa0.\n"]
    three_ways(chk, "raw-bytes", raw, spec=False)
    chk.assumptions += ["the executed reader model trims Unicode whitespace exactly as Go does (R2u); the C07 theorems are stated for the ASCII reader and transfer to it on text without non-ASCII Unicode space encodings (C07_exact_reader_agrees)",
                        "I/O errors of the underlying reader are not modelled (in-memory readers)"]


def replay(chk, d):
    c = lib.case_from_replay(d)
    i, m = chk.run_both([c])
    print("impl:", i[0][:500], "model:", m[0][:500])
    return 1 if i[0] != m[0] or ("expected" in d and d["expected"] != i[0]) else 0
