package main

import (
	"fmt"
	"sort"
	"strings"
	"time"

	"pault.ag/go/debian/changelog"
)

func init() {
	// the date oracle: time.Parse asked directly, not through the code under test
	ops["tparse"] = func(a []string) string {
		t, err := time.Parse(time.RFC1123Z, arg(a, 0))
		if err != nil {
			return "err"
		}
		_, off := t.Zone()
		return fmt.Sprintf("%d/%d", t.Unix(), off)
	}
	ops["clparse"] = func(a []string) string {
		es, err := changelog.Parse(strings.NewReader(arg(a, 0)))
		if err != nil {
			if len(es) != 0 {
				return "err-with-value"
			}
			return "err"
		}
		items := []string{}
		for _, e := range es {
			keys := []string{}
			for k := range e.Arguments {
				keys = append(keys, k)
			}
			sort.Strings(keys)
			args := []string{}
			for _, k := range keys {
				args = append(args, "( "+hx(k)+" "+hx(e.Arguments[k])+" )")
			}
			_, off := e.When.Zone()
			items = append(items, fmt.Sprintf("( %s %s %s %s %s %s %d/%d )", hx(e.Source), showV(e.Version), hx(e.Target),
				showList(args), hx(e.Changelog), hx(e.ChangedBy), e.When.Unix(), off))
		}
		return "ok " + showList(items)
	}
}
