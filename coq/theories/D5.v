(* C18 for the dependency parser: every loop consumes a byte or stops, so fuel |input|+c always suffices *)
From Coq Require Import List Ascii String ZArith NArith Lia Bool Arith.
Require Import D3.
Import ListNotations.

Notation len := (@List.length ascii).
Definition nofuel {A} (r : outcome A) : Prop := r <> OutOfFuel.

Lemma eat_ws_len i : (len (eat_ws i) <= len i)%nat.
Proof. induction i as [|c r IH]; cbn; [lia|]. destruct (is_ws c); cbn; lia. Qed.
Lemma eat_ws_head i : is_ws (peek (eat_ws i)) = false.
Proof. induction i as [|c r IH]; cbn; [reflexivity|]. destruct (is_ws c) eqn:E; [exact IH|cbn; exact E]. Qed.
Lemma eat_ws_strict i : is_ws (peek i) = true -> (len (eat_ws i) < len i)%nat.
Proof. destruct i as [|c r]; cbn; [discriminate|]. intros ->. pose proof (eat_ws_len r). lia. Qed.
Lemma adv_len i : (len (adv i) <= len i)%nat. Proof. destruct i; cbn; lia. Qed.
Lemma adv_len_lt i : i <> [] -> (len (adv i) < len i)%nat. Proof. destruct i; [congruence|cbn; lia]. Qed.

Lemma eat_ws_id_local i : is_ws (peek i) = false -> eat_ws i = i.
Proof. destruct i as [|c r]; cbn; [reflexivity|]. now intros ->. Qed.

(* ---- the fuel-free scanners return a suffix ---- *)
Lemma substvar_len : forall i name p r, substvar_loop name i = Ok (p, r) -> (len r < len i)%nat.
Proof.
  induction i as [|c i IH]; intros name p r; cbn [substvar_loop]; [discriminate|].
  destruct (bad_in_substvar c); [discriminate|]. destruct (eqc c 125).
  - cbv zeta. destruct (_ || _ || _); [|discriminate]. intros E. inversion E; subst. pose proof (eat_ws_len i). cbn. lia.
  - intros E. apply IH in E. cbn. lia.
Qed.
Lemma arch_named_len name i a r : arch_named name i = Ok (a, r) -> r = i.
Proof. unfold arch_named. destruct (arch_ok name); [|discriminate]. intros E. now inversion E. Qed.
Lemma arch_named_nofuel name i : arch_named name i <> OutOfFuel.
Proof. unfold arch_named. destruct (arch_ok name); discriminate. Qed.
Lemma multiarch_len : forall i name a r, multiarch_loop name i = Ok (a, r) -> (len r <= len i)%nat.
Proof.
  induction i as [|c i IH]; intros name a r; cbn [multiarch_loop].
  - intros E. apply arch_named_len in E. subst. lia.
  - destruct (multiarch_stop c); [intros E; apply arch_named_len in E; subst; lia|]. intros E. apply IH in E. cbn. lia.
Qed.
Lemma multiarch_nofuel : forall i name, multiarch_loop name i <> OutOfFuel.
Proof.
  induction i as [|c i IH]; intros name; cbn [multiarch_loop]; [apply arch_named_nofuel|].
  destruct (multiarch_stop c); [apply arch_named_nofuel|apply IH].
Qed.
Lemma number_len : forall i num n r, number_loop num i = Ok (n, r) -> (len r <= len i)%nat /\ r <> [].
Proof.
  induction i as [|c i IH]; intros num n r; cbn [number_loop]; [discriminate|].
  destruct (bad_in_number c); [discriminate|]. destruct (eqc c 41).
  - intros E. inversion E; subst. split; [lia|discriminate].
  - intros E. destruct (IH _ _ _ E). split; [cbn; lia|assumption].
Qed.
Lemma parse_version_len i v r : parse_version i = Ok (v, r) -> (len r < len i)%nat.
Proof.
  unfold parse_version. set (j := adv (eat_ws i)).
  destruct (parse_operator j) as [[op k]| |] eqn:O; try discriminate.
  destruct (number_loop [] (eat_ws k)) as [[num m]| |] eqn:N; try discriminate.
  intros E. inversion E; subst. destruct (number_len _ _ _ _ N) as [L Hne].
  pose proof (adv_len_lt m Hne). pose proof (eat_ws_len k).
  assert (len k <= len j)%nat.
  { unfold parse_operator in O. pose proof (eat_ws_len j).
    destruct (eqc (peek (eat_ws j)) 61).
    - destruct (_ || _) in O; [discriminate|]. inversion O; subst. pose proof (adv_len (eat_ws j)). lia.
    - destruct (eqc (peek (eat_ws j)) 0 || eqc (peek (adv (eat_ws j))) 0); [discriminate|].
      destruct (_ || _) in O; [|discriminate]. destruct (_ || _) in O; [discriminate|]. inversion O; subst.
      pose proof (adv_len (eat_ws j)). pose proof (adv_len (adv (eat_ws j))). lia. }
  subst j. pose proof (adv_len (eat_ws i)). pose proof (eat_ws_len i). 
  (* i is non-empty: otherwise the operator hits EOF *)
  destruct i as [|c i']; [cbn in O; discriminate|]. cbn [List.length] in *. lia.
Qed.

Lemma arch_name_len : forall i name a r, arch_name_loop name i = Ok (a, r) -> (len r <= len i)%nat.
Proof.
  induction i as [|c i IH]; intros name a r; cbn [arch_name_loop]; [discriminate|].
  destruct (bad_in_arch c); [discriminate|]. destruct (eqc c 33); [discriminate|]. destruct (eqc c 93 || is_ws c).
  - intros E. apply arch_named_len in E. subst. lia.
  - intros E. apply IH in E. cbn. lia.
Qed.

(* an arch entry starting at a byte that is neither blank, ']' nor NUL consumes at least that byte *)
Lemma parse_one_arch_len set i s' r :
  is_ws (peek i) = false -> eqc (peek i) 93 = false -> i <> [] ->
  parse_one_arch set i = Ok (s', r) -> (len r < len i)%nat.
Proof.
  intros Hw H93 Hne. unfold parse_one_arch. rewrite (eat_ws_id_local i Hw).
  destruct (eqc (peek i) 33) eqn:H33.
  - destruct (match a_list set with [] => Some true | _ :: _ => if Bool.eqb (a_not set) true then Some (a_not set) else None end); [|discriminate].
    destruct (arch_name_loop [] (adv i)) as [[a k]| |] eqn:N; try discriminate. intros E. inversion E; subst.
    pose proof (arch_name_len _ _ _ _ N). pose proof (adv_len_lt i Hne). lia.
  - destruct (match a_list set with [] => Some false | _ :: _ => if Bool.eqb (a_not set) false then Some (a_not set) else None end); [|discriminate].
    destruct i as [|c i']; [congruence|]. cbn [peek] in *. cbn [arch_name_loop].
    destruct (bad_in_arch c); [discriminate|]. rewrite H33, H93, Hw. cbn [orb].
    destruct (arch_name_loop ([] ++ enc c) i') as [[a k]| |] eqn:N; try discriminate. intros E. inversion E; subst.
    pose proof (arch_name_len _ _ _ _ N). cbn. lia.
Qed.

Lemma archs_loop_S f set i : archs_loop (S f) set i =
  match eat_ws i with
  | [] => Err
  | c :: r => if eqc c 0 then Err else if eqc c 93 then Ok (set, r)
              else match parse_one_arch set (eat_ws i) with
                   | Ok (set, i) => archs_loop f set i
                   | Err => Err | OutOfFuel => OutOfFuel end
  end.
Proof. reflexivity. Qed.

Lemma parse_one_arch_nofuel set i : nofuel (parse_one_arch set i).
Proof.
  unfold nofuel, parse_one_arch.
  destruct (match a_list set with [] => _ | _ => _ end); [|discriminate].
  assert (G : forall nm j, arch_name_loop nm j <> OutOfFuel).
  { intros nm j. revert nm. induction j as [|c j IH]; intros nm; cbn; [discriminate|].
    destruct (bad_in_arch c); [discriminate|]. destruct (eqc c 33); [discriminate|]. destruct (eqc c 93 || is_ws c); [apply arch_named_nofuel|apply IH]. }
  destruct (arch_name_loop [] _) as [[a k]| |] eqn:N; try discriminate. exfalso. eapply G; eauto.
Qed.

Lemma archs_loop_fuel : forall f set i, (len i < f)%nat ->
  nofuel (archs_loop f set i) /\ forall s' r, archs_loop f set i = Ok (s', r) -> (len r < len i)%nat.
Proof.
  induction f as [|f IH]; intros set i Hf; [lia|]. rewrite archs_loop_S.
  pose proof (eat_ws_len i) as Le. pose proof (eat_ws_head i) as Hh.
  destruct (eat_ws i) as [|c r] eqn:E; [split; [discriminate|discriminate]|].
  destruct (eqc c 0); [split; discriminate|]. destruct (eqc c 93) eqn:H93.
  - split; [discriminate|]. intros s' r' Eq. inversion Eq; subst. cbn in Le. lia.
  - pose proof (parse_one_arch_nofuel set (c :: r)) as NF.
    destruct (parse_one_arch set (c :: r)) as [[s1 i1]| |] eqn:P; [|split; discriminate|contradiction].
    assert (L1 : (len i1 < len (c :: r))%nat) by (eapply parse_one_arch_len; eauto; discriminate).
    destruct (IH s1 i1 ltac:(cbn in *; lia)) as [A B]. split; [exact A|].
    intros s' r' Eq. specialize (B _ _ Eq). cbn in *. lia.
Qed.

(* ---- profile groups ---- *)
Lemma stage_loop_len : forall i st st' r, stage_loop st i = Ok (st', r) -> (len r <= len i)%nat.
Proof.
  induction i as [|c i IH]; intros st st' r; cbn [stage_loop]; [discriminate|].
  destruct (bad_in_stage c); [discriminate|]. destruct (eqc c 33).
  - destruct (s_not st); [discriminate|]. intros E. apply IH in E. cbn. lia.
  - destruct (eqc c 62 || is_ws c).
    + intros E. inversion E; subst. lia.
    + intros E. apply IH in E. cbn. lia.
Qed.
Lemma stage_loop_nofuel : forall i st, nofuel (stage_loop st i).
Proof.
  unfold nofuel. induction i as [|c i IH]; intros st; cbn [stage_loop]; [discriminate|].
  destruct (bad_in_stage c); [discriminate|]. destruct (eqc c 33); [destruct (s_not st); [discriminate|apply IH]|].
  destruct (eqc c 62 || is_ws c); [discriminate|apply IH].
Qed.
(* a stage starting at a byte that is neither blank, '>' nor NUL consumes it *)
Lemma stage_loop_progress i st st' r : i <> [] -> is_ws (peek i) = false -> eqc (peek i) 62 = false ->
  stage_loop st i = Ok (st', r) -> (len r < len i)%nat.
Proof.
  intros Hne Hw H62. destruct i as [|c i]; [congruence|]. cbn [peek] in *. cbn [stage_loop].
  destruct (bad_in_stage c); [discriminate|]. destruct (eqc c 33).
  - destruct (s_not st); [discriminate|]. intros E. apply stage_loop_len in E. cbn. lia.
  - rewrite H62, Hw. cbn [orb]. intros E. apply stage_loop_len in E. cbn. lia.
Qed.

Lemma stageset_loop_S f acc i : stageset_loop (S f) acc i =
  match eat_ws i with
  | [] => Err
  | c :: r => if eqc c 0 then Err else if eqc c 62 then Ok (acc, r)
              else match stage_loop {| s_not := false; s_name := [] |} (eat_ws i) with
                   | Ok (st, i) => stageset_loop f (acc ++ [st]) i
                   | Err => Err | OutOfFuel => OutOfFuel end
  end.
Proof. reflexivity. Qed.

Lemma stageset_loop_fuel : forall f acc i, (len i < f)%nat ->
  nofuel (stageset_loop f acc i) /\ forall a r, stageset_loop f acc i = Ok (a, r) -> (len r < len i)%nat.
Proof.
  induction f as [|f IH]; intros acc i Hf; [lia|]. rewrite stageset_loop_S.
  pose proof (eat_ws_len i) as Le. pose proof (eat_ws_head i) as Hh.
  destruct (eat_ws i) as [|c r] eqn:E; [split; discriminate|].
  destruct (eqc c 0); [split; discriminate|]. destruct (eqc c 62) eqn:H62.
  - split; [discriminate|]. intros a r' Eq. inversion Eq; subst. cbn in Le. lia.
  - pose proof (stage_loop_nofuel (c :: r) {| s_not := false; s_name := [] |}) as NF.
    destruct (stage_loop {| s_not := false; s_name := [] |} (c :: r)) as [[st i1]| |] eqn:P; [|split; discriminate|contradiction].
    assert (L1 : (len i1 < len (c :: r))%nat) by (eapply stage_loop_progress; eauto; discriminate).
    assert (Hf1 : (len i1 < f)%nat) by (cbn in *; lia).
    destruct (IH (acc ++ [st]) i1 Hf1) as [A B]. split; [exact A|].
    intros a r' Eq. specialize (B _ _ Eq). cbn in *. lia.
Qed.

(* ---- controllers ---- *)
Lemma controllers_S f p i : controllers (S f) p i =
  let i := eat_ws i in let c := peek i in
  if eqc c 44 || eqc c 124 || eqc c 0 then Ok (p, i)
  else if eqc c 40 then
    match p_ver p with
    | Some _ => Err
    | None => match parse_version i with
              | Ok (v, i) => controllers f (set_ver p v) i | Err => Err | OutOfFuel => OutOfFuel end
    end
  else if eqc c 91 then
    match a_list (archs_of p) with
    | _ :: _ => Err
    | [] => match parse_archs f (archs_of p) i with
            | Ok (a, i) => controllers f (set_archs p a) i | Err => Err | OutOfFuel => OutOfFuel end
    end
  else if eqc c 60 then
    match parse_stageset f i with
    | Ok (st, i) => controllers f (match st with [] => p | _ => add_stages p st end) i
    | Err => Err | OutOfFuel => OutOfFuel end
  else Err.
Proof. reflexivity. Qed.

Definition stop3 (c : ascii) : bool := eqc c 44 || eqc c 124 || eqc c 0.

Lemma parse_version_nofuel i : nofuel (parse_version i).
Proof.
  unfold nofuel, parse_version. destruct (parse_operator _) as [[op k]| |] eqn:O; try discriminate.
  - assert (G : forall nm j, number_loop nm j <> OutOfFuel).
    { intros nm j. revert nm. induction j as [|c j IH]; intros nm; cbn [number_loop]; [discriminate|].
      destruct (bad_in_number c); [discriminate|]. destruct (eqc c 41); [discriminate|apply IH]. }
    destruct (number_loop [] (eat_ws k)) as [[n m]| |] eqn:N; try discriminate. exfalso. eapply G; eauto.
  - exfalso. unfold parse_operator in O. destruct (eqc _ 61); [destruct (_ || _); discriminate|]. destruct (_ || _); [discriminate|]. destruct (_ || _); [destruct (_ || _); discriminate|discriminate].
Qed.

Lemma peek_nonempty i n : eqc (peek i) n = true -> n <> 0%N -> i <> [].
Proof. intros H Hn ->. unfold eqc in H. apply N.eqb_eq in H. cbn in H. congruence. Qed.

Lemma controllers_fuel : forall f p i, (len i < f)%nat ->
  nofuel (controllers f p i) /\
  forall p' r, controllers f p i = Ok (p', r) -> (len r <= len i)%nat /\ stop3 (peek r) = true /\
               (stop3 (peek i) = false -> (len r < len i)%nat).
Proof.
  induction f as [|f IH]; intros p i Hf; [lia|]. rewrite controllers_S. cbv zeta.
  pose proof (eat_ws_len i) as Le. pose proof (eat_ws_strict i) as Ls. set (j := eat_ws i) in *.
  destruct (eqc (peek j) 44 || eqc (peek j) 124 || eqc (peek j) 0) eqn:St.
  - split; [discriminate|]. intros p' r E. inversion E; subst. split; [lia|]. split; [exact St|].
    intros Hn. destruct (is_ws (peek i)) eqn:W; [now apply Ls|].
    exfalso. subst j. rewrite (eat_ws_id_local i W) in St. unfold stop3 in Hn. congruence.
  - destruct (eqc (peek j) 40) eqn:H40.
    + destruct (p_ver p); [split; discriminate|].
      pose proof (parse_version_nofuel j) as NF.
      destruct (parse_version j) as [[v k]| |] eqn:PV; [|split; discriminate|contradiction].
      pose proof (parse_version_len j v k PV) as Lk.
      assert (Hk : (len k < f)%nat) by lia. destruct (IH (set_ver p v) k Hk) as [A B]. split; [exact A|].
      intros p' r E. destruct (B _ _ E) as (B1&B2&_). split; [lia|]. split; [exact B2|]. intros _. lia.
    + destruct (eqc (peek j) 91) eqn:H91.
      * destruct (a_list (archs_of p)); [|split; discriminate].
        assert (Jne : j <> []) by (eapply peek_nonempty; [exact H91|discriminate]).
        unfold parse_archs. pose proof (eat_ws_len j) as Lj. pose proof (adv_len_lt (eat_ws j)) as La.
        assert (Ej : eat_ws j = j) by (subst j; apply eat_ws_id_local; apply eat_ws_head). rewrite Ej in *.
        specialize (La Jne).
        assert (Hf1 : (len (adv j) < f)%nat) by lia.
        destruct (archs_loop_fuel f (archs_of p) (adv j) Hf1) as [A1 B1].
        destruct (archs_loop f (archs_of p) (adv j)) as [[a k]| |] eqn:AL; [|split; discriminate|contradiction].
        specialize (B1 _ _ eq_refl). assert (Hk : (len k < f)%nat) by lia.
        destruct (IH (set_archs p a) k Hk) as [A B]. split; [exact A|].
        intros p' r E. destruct (B _ _ E) as (B2&B3&_). split; [lia|]. split; [exact B3|]. intros _. lia.
      * destruct (eqc (peek j) 60) eqn:H60; [|split; discriminate].
        assert (Jne : j <> []) by (eapply peek_nonempty; [exact H60|discriminate]).
        unfold parse_stageset.
        assert (Ej : eat_ws j = j) by (subst j; apply eat_ws_id_local; apply eat_ws_head). rewrite Ej.
        pose proof (adv_len_lt j Jne) as La. assert (Hf1 : (len (adv j) < f)%nat) by lia.
        destruct (stageset_loop_fuel f [] (adv j) Hf1) as [A1 B1].
        destruct (stageset_loop f [] (adv j)) as [[st k]| |] eqn:SL; [|split; discriminate|contradiction].
        specialize (B1 _ _ eq_refl). assert (Hk : (len k < f)%nat) by lia.
        destruct (IH (match st with [] => p | _ => add_stages p st end) k Hk) as [A B]. split; [exact A|].
        intros p' r E. destruct (B _ _ E) as (B2&B3&_). split; [lia|]. split; [exact B3|]. intros _. lia.
Qed.

(* ---- possibilities, relations, the field ---- *)
Lemma possi_loop_S f p rel i : possi_loop (S f) p rel i =
  let c := peek i in
  if eqc c 58 then
    match parse_multiarch i with
    | Ok (a, i) => possi_loop f (set_arch p a) rel i | Err => Err | OutOfFuel => OutOfFuel end
  else if is_ws c || eqc c 40 || eqc c 91 || eqc c 60 then
    match controllers f p i with
    | Ok (p, i) => possi_loop f p rel i | Err => Err | OutOfFuel => OutOfFuel end
  else if eqc c 44 || eqc c 124 || eqc c 0 then
    match p_name p with [] => Ok (rel, i) | _ => Ok (rel ++ [p], i) end
  else possi_loop f (add_name p c) rel (adv i).
Proof. reflexivity. Qed.

Lemma stop3_facts c : stop3 c = true -> eqc c 58 = false /\ is_ws c = false /\ (eqc c 40 || (eqc c 91 || eqc c 60)) = false.
Proof.
  unfold stop3, eqc, is_ws, eqc. intros H.
  apply orb_true_iff in H as [H|H]; [apply orb_true_iff in H as [H|H]|]; apply N.eqb_eq in H; rewrite H; repeat split; reflexivity.
Qed.

Lemma possi_loop_fuel : forall f p rel i, (len i + 1 < f)%nat ->
  nofuel (possi_loop f p rel i) /\
  forall rel' r, possi_loop f p rel i = Ok (rel', r) ->
    (len r <= len i)%nat /\ (stop3 (peek i) = false -> (len r < len i)%nat).
Proof.
  induction f as [|f IH]; intros p rel i Hf; [lia|]. rewrite possi_loop_S. cbv zeta.
  destruct (eqc (peek i) 58) eqn:H58.
  - assert (Ine : i <> []) by (eapply peek_nonempty; [exact H58|discriminate]).
    unfold parse_multiarch. pose proof (multiarch_len (adv i) []) as Lm. pose proof (adv_len_lt i Ine) as La.
    pose proof (multiarch_nofuel (adv i) []) as NFm.
    destruct (multiarch_loop [] (adv i)) as [[a i1]| |]; [|split; discriminate|contradiction]. specialize (Lm a i1 eq_refl).
    assert (Hf1 : (len i1 + 1 < f)%nat) by lia. destruct (IH (set_arch p a) rel i1 Hf1) as [A B]. split; [exact A|].
    intros rel' r E. destruct (B _ _ E) as [B1 _]. split; [lia|]. intros _. lia.
  - destruct (is_ws (peek i) || eqc (peek i) 40 || eqc (peek i) 91 || eqc (peek i) 60) eqn:HC.
    + assert (Hn : stop3 (peek i) = false).
      { destruct (stop3 (peek i)) eqn:S; [|reflexivity]. destruct (stop3_facts _ S) as (_&W&P). rewrite <- !orb_assoc in HC. rewrite W in HC. cbn [orb] in HC. rewrite P in HC. discriminate. }
      assert (Hf0 : (len i < f)%nat) by lia. destruct (controllers_fuel f p i Hf0) as [A B].
      destruct (controllers f p i) as [[p1 i1]| |] eqn:C; [|split; discriminate|contradiction].
      destruct (B _ _ eq_refl) as (B1&B2&B3). specialize (B3 Hn).
      assert (Hf1 : (len i1 + 1 < f)%nat) by lia. destruct (IH p1 rel i1 Hf1) as [A1 B4]. split; [exact A1|].
      intros rel' r E. destruct (B4 _ _ E) as [B5 _]. split; [lia|]. intros _. lia.
    + destruct (eqc (peek i) 44 || eqc (peek i) 124 || eqc (peek i) 0) eqn:St.
      * split; [destruct (p_name p); discriminate|]. intros rel' r E.
        assert (r = i) by (destruct (p_name p); inversion E; reflexivity). subst r. split; [lia|].
        unfold stop3. rewrite St. discriminate.
      * assert (Ine : i <> []).
        { intros ->. cbn in St. discriminate. }
        pose proof (adv_len_lt i Ine) as La. assert (Hf1 : (len (adv i) + 1 < f)%nat) by lia.
        destruct (IH (add_name p (peek i)) rel (adv i) Hf1) as [A B]. split; [exact A|].
        intros rel' r E. destruct (B _ _ E) as [B1 _]. split; [lia|]. intros _. lia.
Qed.

Lemma parse_possibility_fuel f rel i : (len i + 1 < f)%nat ->
  nofuel (parse_possibility f rel i) /\
  forall rel' r, parse_possibility f rel i = Ok (rel', r) ->
    (len r <= len i)%nat /\ (stop3 (peek i) = false -> (len r < len i)%nat).
Proof.
  intros Hf. unfold parse_possibility. pose proof (eat_ws_len i) as Le. pose proof (eat_ws_strict i) as Ls.
  set (j := eat_ws i) in *. destruct (eqc (peek j) 36) eqn:H36.
  - assert (Jne : j <> []) by (eapply peek_nonempty; [exact H36|discriminate]).
    unfold parse_substvar.
    assert (Ej : eat_ws j = j) by (subst j; apply eat_ws_id_local; apply eat_ws_head). rewrite Ej.
    assert (NF : forall nm x, substvar_loop nm x <> OutOfFuel).
    { intros nm x. revert nm. induction x as [|c x IHx]; intros nm; cbn [substvar_loop]; [discriminate|].
      destruct (bad_in_substvar c); [discriminate|]. destruct (eqc c 125); [cbv zeta; destruct (_ || _ || _); discriminate|apply IHx]. }
    destruct (substvar_loop [] (adv (adv j))) as [[p1 r1]| |] eqn:SV; [|split; discriminate|exfalso; eapply NF; eauto].
    split; [discriminate|]. intros rel' r E. inversion E; subst.
    pose proof (substvar_len _ _ _ _ SV). pose proof (adv_len (adv j)). pose proof (adv_len_lt j Jne). split; lia.
  - assert (Hf1 : (len j + 1 < f)%nat) by lia. destruct (possi_loop_fuel f fresh rel j Hf1) as [A B]. split; [now apply guard_nofuel|].
    intros rel' r E. apply guard_ok_inv in E. destruct (B _ _ E) as [B1 B2]. split; [lia|]. intros Hn.
    destruct (is_ws (peek i)) eqn:W; [specialize (Ls eq_refl); lia|].
    subst j. rewrite (eat_ws_id_local i W) in *. now apply B2.
Qed.

Lemma relation_loop_S f rel d i : relation_loop (S f) rel d i =
  if eqc (peek i) 0 || eqc (peek i) 44 then Ok ((match rel with [] => d | _ => d ++ [rel] end), i)
  else if eqc (peek i) 124 then relation_loop f rel d (eat_ws (adv i))
  else match parse_possibility f rel i with
       | Ok (rel, i) => relation_loop f rel d i | Err => Err | OutOfFuel => OutOfFuel end.
Proof. reflexivity. Qed.

Lemma relation_loop_fuel : forall f rel d i, (len i + 2 < f)%nat ->
  nofuel (relation_loop f rel d i) /\
  forall d' r, relation_loop f rel d i = Ok (d', r) ->
    (len r <= len i)%nat /\ (eqc (peek i) 0 || eqc (peek i) 44 = false -> (len r < len i)%nat).
Proof.
  induction f as [|f IH]; intros rel d i Hf; [lia|]. rewrite relation_loop_S.
  destruct (eqc (peek i) 0 || eqc (peek i) 44) eqn:St.
  - split; [discriminate|]. intros d' r E. inversion E; subst. split; [lia|discriminate].
  - destruct (eqc (peek i) 124) eqn:H124.
    + assert (Ine : i <> []) by (eapply peek_nonempty; [exact H124|discriminate]).
      pose proof (adv_len_lt i Ine). pose proof (eat_ws_len (adv i)).
      assert (Hf1 : (len (eat_ws (adv i)) + 2 < f)%nat) by lia. destruct (IH rel d _ Hf1) as [A B]. split; [exact A|].
      intros d' r E. destruct (B _ _ E) as [B1 _]. split; [lia|]. intros _. lia.
    + assert (Hn : stop3 (peek i) = false).
      { unfold stop3. apply orb_false_iff in St as [S0 S44]. now rewrite S0, S44, H124. }
      assert (Hf0 : (len i + 1 < f)%nat) by lia. destruct (parse_possibility_fuel f rel i Hf0) as [A B].
      destruct (parse_possibility f rel i) as [[rel1 i1]| |] eqn:PP; [|split; discriminate|contradiction].
      destruct (B _ _ eq_refl) as [B1 B2]. specialize (B2 Hn).
      assert (Hf1 : (len i1 + 2 < f)%nat) by lia. destruct (IH rel1 d i1 Hf1) as [A1 B3]. split; [exact A1|].
      intros d' r E. destruct (B3 _ _ E) as [B4 _]. split; [lia|]. intros _. lia.
Qed.

Lemma dependency_loop_S f d i : dependency_loop (S f) d i =
  if eqc (peek i) 0 then Ok d
  else if eqc (peek i) 44 then dependency_loop f d (eat_ws (adv i))
  else match relation_loop f [] d (eat_ws i) with
       | Ok (d, i) => dependency_loop f d i | Err => Err | OutOfFuel => OutOfFuel end.
Proof. reflexivity. Qed.

Lemma dependency_loop_fuel : forall f d i, (len i + 3 < f)%nat -> nofuel (dependency_loop f d i).
Proof.
  induction f as [|f IH]; intros d i Hf; [lia|]. rewrite dependency_loop_S.
  destruct (eqc (peek i) 0) eqn:H0; [discriminate|]. destruct (eqc (peek i) 44) eqn:H44.
  - assert (Ine : i <> []) by (eapply peek_nonempty; [exact H44|discriminate]).
    pose proof (adv_len_lt i Ine). pose proof (eat_ws_len (adv i)). apply IH. lia.
  - pose proof (eat_ws_len i) as Le. pose proof (eat_ws_strict i) as Ls.
    assert (Hf0 : (len (eat_ws i) + 2 < f)%nat) by lia. destruct (relation_loop_fuel f [] d (eat_ws i) Hf0) as [A B].
    destruct (relation_loop f [] d (eat_ws i)) as [[d1 i1]| |] eqn:RL; [|discriminate|contradiction].
    destruct (B _ _ eq_refl) as [B1 B2]. apply IH.
    destruct (is_ws (peek i)) eqn:W; [specialize (Ls eq_refl); lia|].
    rewrite (eat_ws_id_local i W) in *. rewrite H0, H44 in B2. specialize (B2 eq_refl). lia.
Qed.

(* C18 (dependency parser): dependency.Parse always terminates; 4*|x|+8 iterations of any loop are never needed *)
Theorem C18_dep_terminates x : parse x <> OutOfFuel.
Proof. unfold parse. apply dependency_loop_fuel. pose proof (eat_ws_len x). lia. Qed.
Print Assumptions C18_dep_terminates.
