"""ar archives from a member-list model (spec side of C13/C15) and structured corruptions."""
import zlib

MAGIC = b"!<arch>\n"


def col(text, width):
    assert len(text) <= width, (text, width)
    return text + b" " * (width - len(text))


def header(m):
    name = m["name"] + (b"/" if m.get("slash") else b"")
    size = m.get("size_text", str(len(m["data"])).encode())
    return (col(name, 16) + col(m["ts"], 12) + col(m["uid"], 6) + col(m["gid"], 6) + col(m["mode"], 8) + col(size, 10) + b"`\n")


def render(ms):
    out = MAGIC
    for m in ms:
        # data is padded to even length; the format does not say with what (ar(1) writes a newline)
        out += header(m) + m["data"] + (m.get("pad", b"\n") if len(m["data"]) % 2 else b"")
    return out


def num(t):
    return int(t) if t.strip() else 0


def show_data(d):
    s = zlib.adler32(d)
    return "%d %d %d" % (len(d), s & 0xffff, s >> 16)


def expected(ms):
    items = []
    for m in ms:
        d = show_data(m["data"])
        items.append("( x%s %d %d %d x%s %d %s re %s )" % (m["name"].hex(), num(m["ts"]), num(m["uid"]), num(m["gid"]), m["mode"].hex(), len(m["data"]), d, d))
    return ("[]" if not items else "[ " + " ".join(items) + " ]") + " eof"


def member(rng, name_len=None, size=None, blank=False):
    names = [b"debian-binary", b"control.tar.gz", b"data.tar.xz", b"_gpgorigin", b"a", b"x.y", b"file with sp",
             b"/7", b"/0", b"/123456", b"#1/20", b"__.SYMDEF", b"/abc",      # GNU / BSD special spellings are plain names here
             # names that START with blanks, or end in a tab / CR (ar rc t.a ' x' x): only the column's trailing SPACE padding
             # and one '/' are not part of the recorded name
             b" x", b"  lead", b"\tx", b"x\t", b" a b ", b"\r", b"y\r", b" "]
    if name_len is None:
        name = rng.choice(names)
        slash = (rng.random() < 0.3 and len(name) < 16) or name.endswith(b" ")     # a name ending in a blank needs its '/' terminator
    else:
        name = (b"n" * name_len)
        slash = name_len < 16 and rng.random() < 0.5
    if size is None:
        size = rng.choice([0, 1, 2, 3, 59, 60, 61, rng.randrange(0, 400), rng.randrange(0, 5000)])
    data = bytes(rng.randrange(256) for _ in range(size))
    # decimal columns may be written zero-padded ("0000000013", "000501", "0998", "08"): they are decimal all the same
    def zp(t, width):
        return t if not t or rng.random() > 0.25 else t.rjust(rng.randrange(len(t), width + 1), b"0")
    m = _member(rng, name, slash, blank, data)
    m["ts"], m["uid"], m["gid"] = zp(m["ts"], 12), zp(m["uid"], 6), zp(m["gid"], 6)
    if rng.random() < 0.2:
        m["size_text"] = str(len(data)).encode().rjust(rng.randrange(1, 11), b"0")
    return m


def _member(rng, name, slash, blank, data):
    return {"name": name, "slash": slash, "pad": rng.choice([b"\n", b"\n", b"\n", b"\x00", b" ", b"`", b"!"]),
            "ts": b"" if blank else str(rng.randrange(0, 10**10)).encode(),
            "uid": b"" if blank else str(rng.randrange(0, 100000)).encode(),
            "gid": b"" if blank else str(rng.randrange(0, 100000)).encode(),
            "mode": b"" if blank and rng.random() < 0.5 else rng.choice([b"100644", b"100755", b"644", b"0"]),
            "data": data}


COLS = {"name": (0, 16), "ts": (16, 12), "uid": (28, 6), "gid": (34, 6), "mode": (40, 8), "size": (48, 10), "magic": (58, 2)}


def header_offsets(ms):
    offs = []
    off = 8
    for m in ms:
        offs.append(off)
        off += 60 + len(m["data"]) + len(m["data"]) % 2
    return offs


def corruptions(rng, ms):
    """structured corruption of a valid archive: every column of every header set to hostile text,
    magic bytes flipped, duplicated / reordered members"""
    base = render(ms)
    out = []
    for off in header_offsets(ms):
        for cname, (c, w) in COLS.items():
            if cname in ("name", "mode", "magic"):
                continue
            for text in [b"-1", b"-60", b"9" * w, b"", b"x1", b"+5", b"1 2", b"0x10", b"1_0", b"-0", b"00000", b"+", b"-"]:
                if len(text) > w:
                    continue
                b = bytearray(base)
                b[off + c:off + c + w] = col(text, w)
                out.append(bytes(b))
        for k in (58, 59):
            for v in (0x60, 0x0a, 0x20, 0x00):
                b = bytearray(base); b[off + k] = v; out.append(bytes(b))
    if len(ms) >= 2:
        out.append(render(ms + ms))
        out.append(render(list(reversed(ms))))
        out.append(render([ms[0], ms[0]] + ms[1:]))
    return out
