(* The ar member-header parser with Go's exact strings.TrimSpace (UTF-8 aware, V11) on the mode and
   numeric columns (the name column is trimmed by strings.TrimRight(x, " "), which is byte-wise).  This is what the tie executes; on a header that contains no encoding of a non-ASCII
   Unicode space it is AR.parse_entry, about which the C13/C15 theorems are stated. *)
From Coq Require Import List Ascii String Bool Arith ZArith Lia.
Require Import GS V11 R2u AR AR3.
Import ListNotations.

Definition field_num_u (f : str) : option Z :=
  let t := trim_space_u f in if str_eqb t [] then Some 0%Z else atoi t.

Definition parse_entry_u (off : nat) (line : str) : option entry :=
  if negb (List.length line =? 60) then None
  else if negb (ceq (nth 58 line zero) bq && ceq (nth 59 line zero) nl) then None
  else
    match field_num_u (sub line 16 12), field_num_u (sub line 28 6), field_num_u (sub line 34 6), field_num_u (sub line 48 10) with
    | Some ts, Some uid, Some gid, Some size =>
        if (size <? 0)%Z then None
        else Some {| e_name := trim_suffix [slash] (trim_right_sp (sub line 0 16));
                     e_ts := ts; e_uid := uid; e_gid := gid;
                     e_mode := trim_space_u (sub line 40 8); e_size := size; e_hdr := off |}
    | _, _, _, _ => None
    end.

Definition ar_next_u (buf : str) (off : nat) : nres :=
  let line := sub buf off 60 in
  let count := List.length line in
  if count =? 0 then NEof
  else if (count =? 1) && str_eqb line [nl] then NEof
  else if negb (count =? 60) then NErr
  else match parse_entry_u off line with
       | None => NErr
       | Some e =>
           if ((0 <? e_size e) && negb (Z.of_nat off + 60 + e_size e - 1 <? Z.of_nat (List.length buf)))%Z then NErr
           else let size := Z.to_nat (e_size e) in NEntry e (off + 60 + size + size mod 2)
       end.

Fixpoint iterate_u (fuel : nat) (buf : str) (off : nat) : option (list entry * bool) :=
  match fuel with
  | O => None
  | S f => match ar_next_u buf off with
           | NEof => Some ([], true)
           | NErr => Some ([], false)
           | NEntry e off' => option_map (fun r => (e :: fst r, snd r)) (iterate_u f buf off')
           end
  end.

(* ---- transfer ---- *)
Lemma uclean_firstn n x : uclean x -> uclean (firstn n x).
Proof. intros H. rewrite <- (firstn_skipn n x) in H. eapply uclean_prefix; eauto. Qed.
Lemma uclean_skipn n x : uclean x -> uclean (skipn n x).
Proof. intros H. rewrite <- (firstn_skipn n x) in H. eapply uclean_suffix; eauto. Qed.
Lemma uclean_sub x a b : uclean x -> uclean (sub x a b).
Proof. intros H. unfold sub. apply uclean_firstn. now apply uclean_skipn. Qed.

Lemma field_num_u_clean f : uclean f -> field_num_u f = field_num f.
Proof. intros H. unfold field_num_u, field_num. now rewrite (trim_space_u_clean f H). Qed.

Theorem parse_entry_u_clean off line : uclean line -> parse_entry_u off line = parse_entry off line.
Proof.
  intros H. unfold parse_entry_u, parse_entry.
  rewrite !field_num_u_clean by (now apply uclean_sub).
  rewrite !trim_space_u_clean by (now apply uclean_sub). reflexivity.
Qed.

Theorem ar_next_u_clean buf off : uclean (sub buf off 60) -> ar_next_u buf off = ar_next buf off.
Proof.
  intros H. rewrite <- ar_next_z_eq. unfold ar_next_u, ar_next_z. now rewrite (parse_entry_u_clean off _ H).
Qed.
Print Assumptions ar_next_u_clean.
