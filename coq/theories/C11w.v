(* C11 non-vacuity: the hypotheses of the C11 theorems are met by concrete inputs.  Toy oracles: a "clearsigned"
   document is the armor line followed by one byte naming the signing key and the body; a keyring is a list of
   key bytes; verification succeeds when the key byte is in the keyring. *)
From Coq Require Import List Ascii String Bool Arith Lia.
Require Import GS S11.
Import ListNotations.

Definition toy_decode (x : str) : option (str * ascii * str) :=
  if starts_pgp x then match skipn 15 x with k :: body => Some (body, k, []) | [] => None end else None.
Definition toy_verify (kr : list ascii) (body : str) (sg : ascii) : option ascii :=
  if existsb (Ascii.eqb sg) kr then Some sg else None.
Definition toy_read (x : str) : option (list str) := Some [x].
Notation reader := (new_reader (list ascii) ascii ascii toy_decode toy_verify).

Definition signed_doc : str := armor ++ s "KPackage: x" ++ [nl].

(* success: premise of C11_success_means_verified / C11_only_signed_text_is_read / C11_signer_implies_verified *)
Example C11w_success : reader (Some [ "K"%char ]) signed_doc =
  ROk ascii {| r_text := s "Package: x" ++ [nl]; r_signer := Some "K"%char |}.
Proof. vm_compute. reflexivity. Qed.
Example C11w_starts : starts_pgp signed_doc = true. Proof. vm_compute. reflexivity. Qed.
(* failure: key outside the keyring, empty keyring, unsigned input with a keyring *)
Example C11w_other_key : reader (Some [ "J"%char ]) signed_doc = RErr ascii. Proof. vm_compute. reflexivity. Qed.
Example C11w_empty_keyring : reader (Some []) signed_doc = RErr ascii. Proof. vm_compute. reflexivity. Qed.
Example C11w_unsigned_with_keyring : reader (Some [ "K"%char ]) (s "Package: x") = RErr ascii. Proof. vm_compute. reflexivity. Qed.
(* the third disjunct of C11_failure is satisfiable *)
Example C11w_failure_premise : forall b g t, toy_decode signed_doc = Some (b, g, t) -> toy_verify [ "J"%char ] b g = None.
Proof. intros b g t E. vm_compute in E. inversion E; subst. reflexivity. Qed.
(* unsigned input without a keyring is read and has no signer *)
Example C11w_unsigned_no_keyring : reader None (s "Package: x") = ROk ascii {| r_text := s "Package: x"; r_signer := None |}.
Proof. vm_compute. reflexivity. Qed.
