(* An evaluation-friendly form of AR.ar_next: the truncation test is done in Z before the size is turned
   into a (unary) nat, so a header announcing 9999999999 bytes costs nothing to evaluate.  It is proved equal
   to AR.ar_next, so every theorem about the latter is a theorem about what the runner executes. *)
From Coq Require Import List Ascii String Bool Arith ZArith Lia.
Require Import GS AR.
Import ListNotations.

Definition ar_next_z (buf : str) (off : nat) : nres :=
  let line := sub buf off 60 in
  let count := List.length line in
  if count =? 0 then NEof
  else if (count =? 1) && str_eqb line [nl] then NEof
  else if negb (count =? 60) then NErr
  else match parse_entry off line with
       | None => NErr
       | Some e =>
           if ((0 <? e_size e) && negb (Z.of_nat off + 60 + e_size e - 1 <? Z.of_nat (List.length buf)))%Z then NErr
           else let size := Z.to_nat (e_size e) in NEntry e (off + 60 + size + size mod 2)
       end.

Lemma ar_next_z_eq buf off : ar_next_z buf off = ar_next buf off.
Proof.
  unfold ar_next_z, ar_next. set (line := sub buf off 60).
  destruct (List.length line =? 0); [reflexivity|].
  destruct ((List.length line =? 1) && str_eqb line [nl]); [reflexivity|].
  destruct (negb (List.length line =? 60)); [reflexivity|].
  destruct (parse_entry off line) as [e|] eqn:P; [|reflexivity].
  destruct (parse_entry_props off line e P) as (_&_&_&Hs&_).
  set (size := Z.to_nat (e_size e)).
  assert (E : ((0 <? e_size e) && negb (Z.of_nat off + 60 + e_size e - 1 <? Z.of_nat (List.length buf)))%Z
              = ((0 <? size) && negb (off + 60 + size - 1 <? List.length buf))).
  { subst size. destruct (Z.ltb_spec 0 (e_size e)) as [Hp|Hp].
    - destruct (Nat.ltb_spec 0 (Z.to_nat (e_size e))) as [Hq|Hq]; [|lia]. cbn [andb].
      destruct (Z.ltb_spec (Z.of_nat off + 60 + e_size e - 1) (Z.of_nat (List.length buf)));
      destruct (Nat.ltb_spec (off + 60 + Z.to_nat (e_size e) - 1) (List.length buf)); try reflexivity; lia.
    - destruct (Nat.ltb_spec 0 (Z.to_nat (e_size e))) as [Hq|Hq]; [lia|]. reflexivity. }
  rewrite E. reflexivity.
Qed.

Fixpoint iterate_z (fuel : nat) (buf : str) (off : nat) : option (list entry * bool) :=
  match fuel with
  | O => None
  | S f => match ar_next_z buf off with
           | NEof => Some ([], true)
           | NErr => Some ([], false)
           | NEntry e off' => option_map (fun r => (e :: fst r, snd r)) (iterate_z f buf off')
           end
  end.
Lemma iterate_z_eq : forall fuel buf off, iterate_z fuel buf off = iterate fuel buf off.
Proof.
  induction fuel as [|f IH]; intros buf off; [reflexivity|]. cbn [iterate_z iterate]. rewrite ar_next_z_eq.
  destruct (ar_next buf off); try reflexivity. now rewrite IH.
Qed.
Print Assumptions iterate_z_eq.
