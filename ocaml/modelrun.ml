(* modelrun: evaluates the extracted Coq models.  One case per input line:
     <op> TAB <hexarg> TAB <hexarg> ...
   One output line per case: the canonical result text produced by Run.run.
   All decoding/printing of values is done inside the extracted Coq code; this file only
   moves characters. *)
let explode (s : string) : char list = Stdlib.List.init (Stdlib.String.length s) (Stdlib.String.get s)
let implode (l : char list) : string =
  let b = Buffer.create 64 in Stdlib.List.iter (Buffer.add_char b) l; Buffer.contents b

let () =
  let out = Buffer.create (1 lsl 16) in
  (try
     while true do
       let line = input_line stdin in
       (match Stdlib.String.split_on_char '\t' line with
        | [] -> Buffer.add_string out "bad-line\n"
        | op :: args ->
          let r = try implode (Run.run (explode op) (Stdlib.List.map explode args))
                  with Stack_overflow -> "model-stack-overflow" | Out_of_memory -> "model-oom" in
          Buffer.add_string out r; Buffer.add_char out '\n');
       if Buffer.length out > (1 lsl 16) then (print_string (Buffer.contents out); Buffer.clear out)
     done
   with End_of_file -> ());
  print_string (Buffer.contents out)
