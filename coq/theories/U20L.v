(* C20, names that denote other files.  U20 models a file system in which every name is a file of its own; the r14
   finding copy-follows-destination-symlink lives exactly where that is not so: the destination directory already
   holds a symbolic link under a listed name, and internal.Copy (os.Create) wrote the bytes THROUGH it.  This file
   gives names a second kind of node - a link to another name - models both arrangements of the copy, proves that
   the repaired one (remove the name, create it exclusively: /repo 966caf3) changes the node of no other name, refutes
   the same for the earlier one with the finding's own example, and shows that on the repaired arrangement U20's
   fs_put is what happens to the name whether links are around or not. *)
From Coq Require Import List Ascii String Bool Arith Lia.
Require Import GS U20.
Import ListNotations.

Inductive node := File (c : str) | Link (t : entry).
Definition lfsys := list (entry * node).
Fixpoint lget (e : entry) (f : lfsys) : option node :=
  match f with (k, v) :: r => if entry_eqb k e then Some v else lget e r | [] => None end.
Fixpoint ldel (e : entry) (f : lfsys) : lfsys :=
  match f with (k, v) :: r => if entry_eqb k e then ldel e r else (k, v) :: ldel e r | [] => [] end.
Definition lput (e : entry) (n : node) (f : lfsys) : lfsys := (e, n) :: ldel e f.

Lemma entry_eqb_sym a b : entry_eqb a b = entry_eqb b a.
Proof.
  unfold entry_eqb. destruct (str_eqb_spec (fst a) (fst b)), (str_eqb_spec (fst b) (fst a)); try congruence;
  destruct (str_eqb_spec (snd a) (snd b)), (str_eqb_spec (snd b) (snd a)); congruence.
Qed.
Lemma entry_eqb_eq a b : entry_eqb a b = true -> a = b.
Proof.
  unfold entry_eqb. intros H. apply andb_true_iff in H as [H1 H2].
  destruct (str_eqb_spec (fst a) (fst b)); [|discriminate]. destruct (str_eqb_spec (snd a) (snd b)); [|discriminate].
  destruct a, b; cbn in *; congruence.
Qed.
Lemma entry_eqb_trans_false k e d : entry_eqb k d = true -> entry_eqb e d = false -> entry_eqb k e = false.
Proof.
  intros H1 H2. destruct (entry_eqb k e) eqn:K; [|reflexivity]. apply entry_eqb_eq in H1, K. subst.
  now rewrite entry_eqb_refl in H2.
Qed.

Lemma lget_ldel_other e d f : entry_eqb e d = false -> lget e (ldel d f) = lget e f.
Proof.
  intros N. induction f as [|[k v] r IH]; cbn; [reflexivity|]. destruct (entry_eqb k d) eqn:K.
  - rewrite IH. now rewrite (entry_eqb_trans_false k e d K N).
  - cbn. now rewrite IH.
Qed.
Lemma lget_ldel_same d f : lget d (ldel d f) = None.
Proof. induction f as [|[k v] r IH]; cbn; [reflexivity|]. destruct (entry_eqb k d) eqn:K; [exact IH|]. cbn. now rewrite K. Qed.
Lemma lget_lput_same d n f : lget d (lput d n f) = Some n.
Proof. unfold lput. cbn. now rewrite entry_eqb_refl. Qed.
Lemma lget_lput_other e d n f : entry_eqb e d = false -> lget e (lput d n f) = lget e f.
Proof. intros N. unfold lput. cbn. rewrite entry_eqb_sym, N. now apply lget_ldel_other. Qed.

(* what a name denotes: links are followed, at most `fuel` of them (ELOOP beyond); a name that is free or a file
   denotes itself *)
Fixpoint denotes (fuel : nat) (e : entry) (f : lfsys) : option entry :=
  match lget e f with
  | Some (Link t) => match fuel with 0 => None | S k => denotes k t f end
  | _ => Some e
  end.
Definition read (fuel : nat) (e : entry) (f : lfsys) : option str :=
  match denotes fuel e f with
  | Some t => match lget t f with Some (File c) => Some c | _ => None end
  | None => None
  end.
(* os.SameFile of the opened source and os.Lstat(dest): the destination NAME ITSELF is the file the source denotes (a name
   that only leads to that file through a link is a name like any other, and is replaced) - Lstat since the thorough tier
   found, minutes before the end of the session, a Move that left a chain of links dangling: with os.Stat a destination
   link that led to the source link's target counted as "the same file", nothing was copied, and the source link was removed *)
Definition same_file (fuel : nat) (a b : entry) (f : lfsys) : bool :=
  match denotes fuel a f with
  | Some x => entry_eqb x b && match lget x f with Some (File _) => true | _ => false end
  | None => false
  end.

(* internal.Copy as it was: os.Create(dest) opens what the name DENOTES *)
Definition copy_through (fuel : nat) (src dst : entry) (f : lfsys) : option lfsys :=
  if same_file fuel src dst f then Some f else
  match read fuel src f, denotes fuel dst f with
  | Some c, Some t => Some (lput t (File c) f)
  | _, _ => None
  end.
(* internal.Copy as repaired: the name is removed and created exclusively - it is a new file of its own *)
Definition copy_replace (fuel : nat) (src dst : entry) (f : lfsys) : option lfsys :=
  if same_file fuel src dst f then Some f else
  match read fuel src f with
  | Some c => Some (lput dst (File c) f)
  | None => None
  end.

(* ---- the repaired copy: no other name is touched, whatever the links ---- *)
Theorem copy_replace_only_the_name fuel src dst f f' : copy_replace fuel src dst f = Some f' ->
  forall e, entry_eqb e dst = false -> lget e f' = lget e f.
Proof.
  unfold copy_replace. destruct (same_file fuel src dst f).
  - intros E. inversion E; subst. reflexivity.
  - destruct (read fuel src f) as [c|]; [|discriminate]. intros E. inversion E; subst. intros e N. now apply lget_lput_other.
Qed.
(* ... and the name holds the bytes the source denoted *)
Theorem copy_replace_delivers fuel src dst f f' c : copy_replace fuel src dst f = Some f' -> read fuel src f = Some c ->
  read fuel dst f' = Some c.
Proof.
  unfold copy_replace. destruct (same_file fuel src dst f) eqn:SF.
  - intros E R. inversion E; subst. unfold same_file in SF. unfold read in R.
    destruct (denotes fuel src f') as [x|] eqn:D; [|discriminate].
    apply andb_true_iff in SF as [E1 E2]. apply entry_eqb_eq in E1. subst x.
    destruct (lget dst f') as [[c0|t]|] eqn:G; try discriminate. unfold read.
    assert (Dd : denotes fuel dst f' = Some dst) by (destruct fuel; cbn [denotes]; now rewrite G).
    rewrite Dd, G. exact R.
  - intros E R. rewrite R in E. inversion E; subst. unfold read.
    assert (D : denotes fuel dst (lput dst (File c) f) = Some dst).
    { destruct fuel; cbn [denotes]; now rewrite lget_lput_same. }
    rewrite D. now rewrite lget_lput_same.
Qed.

(* a run of copies, the way DSC.Copy / Changes.Copy make them (the listed files, then the control file; the first
   failure ends the run and what was copied stays): every destination name lies in the directory dest *)
Fixpoint copies (fuel : nat) (dir dest : str) (names : list str) (f : lfsys) : lfsys * bool :=
  match names with
  | [] => (f, true)
  | n :: r => match copy_replace fuel (dir, n) (dest, n) f with Some f1 => copies fuel dir dest r f1 | None => (f, false) end
  end.
Lemma not_in_dest_neq e dest n : str_eqb (fst e) dest = false -> entry_eqb e (dest, n) = false.
Proof. intros H. unfold entry_eqb. cbn [fst snd]. now rewrite H. Qed.
(* whether the run succeeds or fails half way: no name outside the destination directory is touched - not the file it
   is, not the link it is - whatever links the destination directory held *)
Theorem copies_stay_in_the_destination fuel dir dest : forall names f,
  forall e, str_eqb (fst e) dest = false -> lget e (fst (copies fuel dir dest names f)) = lget e f.
Proof.
  induction names as [|n r IH]; intros f e N; cbn [copies]; [reflexivity|].
  destruct (copy_replace fuel (dir, n) (dest, n) f) as [f1|] eqn:C; [|reflexivity].
  rewrite (IH f1 e N). apply (copy_replace_only_the_name fuel _ _ f f1 C). now apply not_in_dest_neq.
Qed.
(* ... and after a successful run every name of the run holds, in the destination, the bytes the source name denoted
   when its turn came *)
Lemma copies_ok_last fuel dir dest : forall names f f' n c, copies fuel dir dest (names ++ [n]) f = (f', true) ->
  read fuel (dir, n) (fst (copies fuel dir dest names f)) = Some c -> read fuel (dest, n) f' = Some c.
Proof.
  induction names as [|m r IH]; intros f f' n c; cbn [app copies fst].
  - destruct (copy_replace fuel (dir, n) (dest, n) f) as [f1|] eqn:C; [|discriminate]. intros E R. inversion E; subst.
    now apply (copy_replace_delivers fuel _ _ f f' c C).
  - destruct (copy_replace fuel (dir, m) (dest, m) f) as [f1|] eqn:C; [|discriminate]. intros E R. now apply (IH f1 f' n c E).
Qed.

(* ---- Move (internal.Move, /repo r15): a plain file is renamed - os.Rename acts on NAMES, the source name's node becomes
   the destination name's node, whatever that held.  A symbolic link is NOT moved as a link (in another directory it would
   point somewhere else, at nothing, or at itself - the r15 finding: a listed file that was a link to the destination's own
   copy became a link to itself, and the only copy of the data was gone): what it denotes is copied, the link removed ---- *)
Definition move_node (fuel : nat) (src dst : entry) (f : lfsys) : option lfsys :=
  match lget src f with
  | Some (Link _) => match copy_replace fuel src dst f with Some f1 => Some (ldel src f1) | None => None end
  | Some n => Some (lput dst n (ldel src f))
  | None => None
  end.
Fixpoint moves (fuel : nat) (dir dest : str) (names : list str) (f : lfsys) : lfsys * bool :=
  match names with
  | [] => (f, true)
  | n :: r => match move_node fuel (dir, n) (dest, n) f with Some f1 => moves fuel dir dest r f1 | None => (f, false) end
  end.
Theorem move_node_only_the_two_names fuel src dst f f' : move_node fuel src dst f = Some f' ->
  forall e, entry_eqb e dst = false -> entry_eqb e src = false -> lget e f' = lget e f.
Proof.
  unfold move_node. destruct (lget src f) as [[c|t]|] eqn:G; [| |discriminate]; intros E e N1 N2.
  - inversion E; subst. rewrite lget_lput_other by exact N1. now apply lget_ldel_other.
  - destruct (copy_replace fuel src dst f) as [f1|] eqn:C; [|discriminate]. inversion E; subst.
    rewrite lget_ldel_other by exact N2. exact (copy_replace_only_the_name fuel src dst f f1 C e N1).
Qed.
(* a plain file arrives as it was and its source name is free; a link arrives as the BYTES it denoted *)
Theorem move_node_delivers_file src dst f f' fuel c : move_node fuel src dst f = Some f' -> lget src f = Some (File c) ->
  lget dst f' = Some (File c) /\ (entry_eqb src dst = false -> lget src f' = None).
Proof.
  unfold move_node. intros E G. rewrite G in E. inversion E; subst. split; [apply lget_lput_same|].
  intros N. rewrite lget_lput_other by exact N. apply lget_ldel_same.
Qed.
Theorem move_node_delivers_link src dst f f' fuel t c : move_node fuel src dst f = Some f' -> lget src f = Some (Link t) ->
  read fuel src f = Some c -> same_file fuel src dst f = false -> entry_eqb src dst = false ->
  lget dst f' = Some (File c) /\ lget src f' = None.
Proof.
  unfold move_node. intros E G R SF N. rewrite G in E. destruct (copy_replace fuel src dst f) as [f1|] eqn:C; [|discriminate].
  inversion E; subst. unfold copy_replace in C. rewrite SF, R in C. inversion C; subst. split.
  - rewrite lget_ldel_other by (rewrite entry_eqb_sym; exact N). apply lget_lput_same.
  - apply lget_ldel_same.
Qed.
(* a run of moves out of dir into dest, succeeding or failing half way: a name that lies in neither directory keeps its
   node - in particular what a link among the moved names pointed at is not touched *)
Theorem moves_stay_in_the_two_directories fuel dir dest : forall names f e,
  str_eqb (fst e) dest = false -> str_eqb (fst e) dir = false -> lget e (fst (moves fuel dir dest names f)) = lget e f.
Proof.
  induction names as [|n r IH]; intros f e N1 N2; cbn [moves]; [reflexivity|].
  destruct (move_node fuel (dir, n) (dest, n) f) as [f1|] eqn:M; [|reflexivity].
  rewrite (IH f1 e N1 N2). apply (move_node_only_the_two_names _ _ _ f f1 M); now apply not_in_dest_neq.
Qed.
(* the r15 finding as it was: the link renamed over the file it points at *)
Example link_renamed_onto_its_target :
  let f := [ ((s "src", s "foo"), Link (s "dst", s "foo")); ((s "dst", s "foo"), File (s "the only copy")) ] in
  (* os.Rename of the link: *) read 40 (s "dst", s "foo") (lput (s "dst", s "foo") (Link (s "dst", s "foo")) (ldel (s "src", s "foo") f)) = None /\
  (* internal.Move: *) option_map (read 40 (s "dst", s "foo")) (move_node 40 (s "src", s "foo") (s "dst", s "foo") f) = Some (Some (s "the only copy")).
Proof. vm_compute. split; reflexivity. Qed.

(* ---- the earlier copy: refuted by the finding's example ---- *)
Definition ex_fs : lfsys :=
  [ ((s "upload", s "foo_1.0.tar.gz"), File (s "payload"));
    ((s "incoming", s "foo_1.0.tar.gz"), Link (s "outside", s "precious"));
    ((s "outside", s "precious"), File (s "precious bytes")) ].
Example copy_through_refuted : exists f',
  copy_through 40 (s "upload", s "foo_1.0.tar.gz") (s "incoming", s "foo_1.0.tar.gz") ex_fs = Some f' /\
  lget (s "outside", s "precious") f' = Some (File (s "payload")) /\
  lget (s "outside", s "precious") ex_fs = Some (File (s "precious bytes")).
Proof. eexists. split; [vm_compute; reflexivity|]. split; reflexivity. Qed.
Example copy_replace_on_the_example : exists f',
  copy_replace 40 (s "upload", s "foo_1.0.tar.gz") (s "incoming", s "foo_1.0.tar.gz") ex_fs = Some f' /\
  lget (s "outside", s "precious") f' = Some (File (s "precious bytes")) /\
  lget (s "incoming", s "foo_1.0.tar.gz") f' = Some (File (s "payload")).
Proof. eexists. split; [vm_compute; reflexivity|]. split; reflexivity. Qed.

(* ---- U20's file system is the link-free part: on the repaired arrangement fs_put is what happens to the name ---- *)
Definition erase (f : fsys) : lfsys := map (fun kv => (fst kv, File (snd kv))) f.
Lemma lget_erase e f : lget e (erase f) = option_map File (fs_get e f).
Proof. unfold erase. induction f as [|[k v] r IH]; cbn; [reflexivity|]. destruct (entry_eqb k e); [reflexivity|exact IH]. Qed.
Lemma ldel_erase e f : ldel e (erase f) = erase (fs_del e f).
Proof. unfold erase. induction f as [|[k v] r IH]; cbn; [reflexivity|]. destruct (entry_eqb k e); [exact IH|]. cbn. now rewrite IH. Qed.
Lemma lput_erase e c f : lput e (File c) (erase f) = erase (fs_put e c f).
Proof. unfold lput, fs_put. rewrite ldel_erase. reflexivity. Qed.
Lemma denotes_erase fuel e f : denotes fuel e (erase f) = Some e.
Proof. destruct fuel; cbn [denotes]; rewrite lget_erase; destruct (fs_get e f); reflexivity. Qed.
Lemma read_erase fuel e f : read fuel e (erase f) = fs_get e f.
Proof. unfold read. rewrite denotes_erase, lget_erase. destruct (fs_get e f); reflexivity. Qed.
(* without links both arrangements are U20's fs_put (unless source and destination are one file) *)
Theorem link_free_copy fuel src dst f c : entry_eqb src dst = false -> fs_get src f = Some c ->
  copy_replace fuel src dst (erase f) = Some (erase (fs_put dst c f)) /\
  copy_through fuel src dst (erase f) = Some (erase (fs_put dst c f)).
Proof.
  intros N G. unfold copy_replace, copy_through, same_file. rewrite !denotes_erase, read_erase, N, G. cbn [andb].
  now rewrite lput_erase.
Qed.
(* with links, the repaired one still puts the bytes under the name and nowhere else: for every name e, what U20's
   fs_put says about e - the new bytes if e is the name, what was there otherwise *)
Theorem copy_replace_is_fs_put fuel src dst f f' c : same_file fuel src dst f = false -> read fuel src f = Some c ->
  copy_replace fuel src dst f = Some f' ->
  forall e, lget e f' = if entry_eqb e dst then Some (File c) else lget e f.
Proof.
  intros SF R E e. unfold copy_replace in E. rewrite SF, R in E. inversion E; subst.
  destruct (entry_eqb e dst) eqn:K.
  - apply entry_eqb_eq in K. subst. apply lget_lput_same.
  - now apply lget_lput_other.
Qed.
Print Assumptions copy_replace_only_the_name.
Print Assumptions copies_stay_in_the_destination.
Print Assumptions copy_replace_is_fs_put.
Print Assumptions moves_stay_in_the_two_directories.
