(* C11 - Clearsigned control data is accepted only with a valid keyring signature.
   Property theorems only.  ORACLES (section parameters): cs_decode = clearsign.Decode (first block: signed
   body, signature, rest), pgp_verify = openpgp.CheckDetachedSignature, read_all = the deb822 reader (C07).
   Model: NewParagraphReader / decodeClearsig.  The theorems are about the glue; the cryptographic soundness of
   golang.org/x/crypto/openpgp is outside them (the tie calls the real library for the oracle answers). *)
From Coq Require Import List Ascii String Bool Arith Lia.
Require Import GS S11.
Import ListNotations.

Section C11.
  Variables keyring entity sig para : Type.
  Variable cs_decode : str -> option (str * sig * str).
  Variable pgp_verify : keyring -> str -> sig -> option entity.
  Variable read_all : str -> option (list para).
  Notation new_reader := (S11.new_reader keyring entity sig cs_decode pgp_verify).

  (* with a keyring, success means: the input decodes as a clearsigned block, its signature verifies against
     the keyring over the body, the reported signer is the verifying entity and the paragraphs are those of
     the signed body *)
  Theorem C11_success_means_verified : forall k input r, new_reader (Some k) input = ROk entity r ->
    exists body sg rest e, cs_decode input = Some (body, sg, rest) /\ pgp_verify k body sg = Some e /\
      r_signer entity r = Some e /\ paragraphs entity para read_all r = read_all body.
  Proof. exact (S11.C11_sound keyring entity sig para cs_decode pgp_verify read_all). Qed.

  (* input that does not start with the armor, does not decode, or whose signature does not verify against
     the keyring (modified text, key outside the keyring, damaged/truncated/missing signature, empty keyring)
     makes reading fail *)
  Theorem C11_failure : forall k input,
    (starts_pgp input = false \/ cs_decode input = None \/
     (forall b g t, cs_decode input = Some (b, g, t) -> pgp_verify k b g = None)) ->
    new_reader (Some k) input = RErr entity.
  Proof. exact (S11.C11_fail keyring entity sig cs_decode pgp_verify). Qed.

  (* text outside the signed block never reaches the caller *)
  Theorem C11_only_signed_text_is_read : forall kr input r, starts_pgp input = true -> new_reader kr input = ROk entity r ->
    exists body sg rest, cs_decode input = Some (body, sg, rest) /\ r_text entity r = body.
  Proof. exact (S11.C11_only_body keyring entity sig cs_decode pgp_verify). Qed.

  (* a reported signer is never present without a verified signature; never for unsigned input *)
  Theorem C11_signer_implies_verified : forall kr input r e, new_reader kr input = ROk entity r -> r_signer entity r = Some e ->
    exists k body sg rest, kr = Some k /\ cs_decode input = Some (body, sg, rest) /\ pgp_verify k body sg = Some e.
  Proof. exact (S11.C11_signer_means_verified keyring entity sig cs_decode pgp_verify). Qed.
  Theorem C11_unsigned_input_has_no_signer : forall kr input r, starts_pgp input = false ->
    new_reader kr input = ROk entity r -> r_signer entity r = None.
  Proof. exact (S11.C11_unsigned_no_signer keyring entity sig cs_decode pgp_verify). Qed.
End C11.
Print Assumptions C11_success_means_verified.
Print Assumptions C11_failure.
Print Assumptions C11_signer_implies_verified.
