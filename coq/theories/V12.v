(* C03 rejections for the exact (UTF-8 aware) parser: each class of V9, with any Unicode whitespace
   around the text.  [T] is the text between the surrounding whitespace. *)
From Coq Require Import List Ascii String Bool Arith NArith ZArith Lia.
Require Import GS V3 V4 V9 V11.
Import ListNotations.

Section Wrapped.
Variables (es1 es2 : list str).
Hypothesis H1 : Forall space_enc es1.
Hypothesis H2 : Forall space_enc es2.
Let wrap (t : str) := List.concat es1 ++ t ++ List.concat es2.

Lemma lift t : ends_plain t -> has_space_u t = false -> parse ([] ++ t ++ []) = None -> parse_u (wrap t) = None.
Proof. intros He Hs P. cbn [app] in P. rewrite app_nil_r in P. now apply C03u_reject. Qed.

Theorem C03u_reject_bad_epoch e r : ends_plain (e ++ colon :: r) -> has_space_u (e ++ colon :: r) = false ->
  free colon e -> parse_epoch e = None -> parse_u (wrap (e ++ colon :: r)) = None.
Proof.
  intros He Hs F E. apply lift; auto. apply C03_reject_bad_epoch; auto; try constructor. now apply has_space_u_nosp.
Qed.
Theorem C03u_reject_nothing_after_colon e : ends_plain (e ++ [colon]) -> has_space_u (e ++ [colon]) = false ->
  free colon e -> parse_u (wrap (e ++ [colon])) = None.
Proof.
  intros He Hs F. apply lift; auto. apply C03_reject_nothing_after_colon; auto; try constructor. now apply has_space_u_nosp.
Qed.
Theorem C03u_reject_first_char e c r : ends_plain (e ++ colon :: c :: r) -> has_space_u (e ++ colon :: c :: r) = false ->
  free colon e -> is_digit c = false -> parse_u (wrap (e ++ colon :: c :: r)) = None.
Proof.
  intros He Hs F D. apply lift; auto. apply C03_reject_first_char; auto; try constructor. now apply has_space_u_nosp.
Qed.
Theorem C03u_reject_first_char_noepoch c r : ends_plain (c :: r) -> has_space_u (c :: r) = false ->
  free colon (c :: r) -> is_digit c = false -> parse_u (wrap (c :: r)) = None.
Proof.
  intros He Hs F D. apply lift; auto. apply C03_reject_first_char_noepoch; auto; try constructor. now apply has_space_u_nosp.
Qed.
Theorem C03u_reject_alphabet t c : ends_plain t -> has_space_u t = false -> In c t -> ok_up c = false ->
  parse_u (wrap t) = None.
Proof.
  intros He Hs Hin Hc. apply lift; auto. apply (C03_reject_alphabet [] [] t c); auto; try constructor.
  - destruct He as [(c0&r0&E&_) _]. congruence.
  - now apply has_space_u_nosp.
Qed.
(* after the last hyphen only the revision alphabet is allowed *)
Theorem C03u_reject_revision a b c : has_space_u (a ++ minus :: b) = false -> ends_plain (a ++ minus :: b) ->
  free colon (a ++ minus :: b) -> free minus b -> In c b -> ok_rev c = false -> parse_u (wrap (a ++ minus :: b)) = None.
Proof.
  intros Hs He Fc Fm Hin Hc. unfold wrap. rewrite (parse_u_wrapped es1 _ es2 H1 H2 He Hs). rewrite (core_nocolon _ Fc).
  now apply (rest_bad_revision 0%N a b c).
Qed.
End Wrapped.

(* the epoch classes named by the property, as facts about the epoch text *)
Theorem epoch_class_nonnumeric c0 r c : In c r -> is_digit c = false -> parse_epoch (c0 :: r) = None.
Proof. exact (epoch_nonnumeric_tail c0 r c). Qed.
Theorem epoch_class_any_nondigit x c : In c x -> is_digit c = false -> parse_epoch x = None.
Proof. exact (epoch_nonnumeric x c). Qed.
Theorem epoch_class_signed ds : parse_epoch (minus :: ds) = None /\ parse_epoch (plus :: ds) = None.
Proof. exact (epoch_signed ds). Qed.
Theorem epoch_class_oversized c r n : dv 0 (c :: r) = Some n -> (max_epoch < n)%N -> parse_epoch (c :: r) = None.
Proof. exact (epoch_oversized c r n). Qed.
Theorem epoch_class_accepted c r n : dv 0 (c :: r) = Some n -> (n <= max_epoch)%N -> parse_epoch (c :: r) = Some n.
Proof. exact (epoch_accepted c r n). Qed.
Print Assumptions C03u_reject_alphabet.
