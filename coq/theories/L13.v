(* C10 composition: a comma-separated list field FOLDED over continuation lines ("Binary: a,\n b,\n c"), read by
   the paragraph reader and then decoded by the list decoder, gives exactly its elements.
   reader (C07_field_value: value = read_conts first conts)  o  decoder (C10_list_field). *)
From Coq Require Import List Ascii String Bool Arith Lia.
Require Import GS R2 L10.
Import ListNotations.

Definition comma : ascii := ","%char.
Definition strip4 (c : ascii) : bool := let n := code c in (n =? 10) || (n =? 13) || (n =? 9) || (n =? 32).

(* the continuation lines for the elements after the first: every line but the last ends with the comma *)
Fixpoint tail_lines (es : list str) : list str :=
  match es with [] => [] | [e] => [e] | e :: r => (e ++ [comma]) :: tail_lines r end.
Fixpoint tail_items (es : list str) : list (str * str * str) :=
  match es with [] => [] | [e] => [([nl], e, [nl])] | e :: r => ([nl], e, []) :: tail_items r end.

Definition line_elt (e : str) : Prop := norm_cont e = e /\ norm_cont (e ++ [comma]) = e ++ [comma].

Lemma read_tail : forall r X, r <> [] -> Forall line_elt r ->
  read_conts (X ++ [nl]) (tail_lines r) = X ++ render_list comma (tail_items r).
Proof.
  induction r as [|e r IH]; intros X NE F; [congruence|]. inversion F as [|? ? [N1 N2] Fr]; subst.
  destruct r as [|e2 r'].
  - cbn [tail_lines tail_items render_list]. unfold read_conts. cbn [fold_left]. rewrite N1. unfold cont_value.
    destruct (str_eqb_spec (X ++ [nl]) []) as [E|_]; [destruct X; discriminate|]. rewrite has_suffix_nl_snoc.
    unfold padded. now rewrite <- !app_assoc.
  - change (tail_lines (e :: e2 :: r')) with ((e ++ [comma]) :: tail_lines (e2 :: r')).
    change (tail_items (e :: e2 :: r')) with (([nl], e, []) :: tail_items (e2 :: r')).
    rewrite read_conts_cons, N2. unfold cont_value at 1.
    destruct (str_eqb_spec (X ++ [nl]) []) as [E|_]; [destruct X; discriminate|]. rewrite has_suffix_nl_snoc.
    replace ((X ++ [nl]) ++ (e ++ [comma]) ++ [nl]) with ((X ++ [nl] ++ e ++ [comma]) ++ [nl]) by (repeat rewrite <- app_assoc; reflexivity).
    rewrite (IH (X ++ [nl] ++ e ++ [comma])); [|discriminate|exact Fr].
    cbn [render_list]. destruct (tail_items (e2 :: r')) eqn:T; [destruct r'; discriminate|].
    rewrite <- T. unfold padded. repeat rewrite <- app_assoc. cbn [app]. repeat rewrite <- app_assoc. reflexivity.
Qed.

(* the value the reader builds for "e0,\n e1,\n ... \n en" *)
Lemma read_folded e0 r : r <> [] -> e0 <> [] -> has_suffix [nl] (e0 ++ [comma]) = false -> Forall line_elt r ->
  read_conts (e0 ++ [comma]) (tail_lines r) = render_list comma (([], e0, []) :: tail_items r).
Proof.
  intros NE Hne Hs F. destruct r as [|e1 r']; [congruence|].
  assert (Step : forall c cs, read_conts (e0 ++ [comma]) (c :: cs) = read_conts (((e0 ++ [comma]) ++ [nl]) ++ norm_cont c ++ [nl]) cs).
  { intros c cs. rewrite read_conts_cons. unfold cont_value. destruct (str_eqb_spec (e0 ++ [comma]) []) as [E|_]; [destruct e0; discriminate|].
    now rewrite Hs. }
  inversion F as [|? ? [N1 N2] Fr]; subst.
  destruct r' as [|e2 r''].
  - cbn [tail_lines tail_items render_list]. rewrite Step, N1. cbn [read_conts fold_left]. unfold read_conts. cbn [fold_left].
    unfold padded. cbn [app]. rewrite <- !app_assoc. reflexivity.
  - change (tail_lines (e1 :: e2 :: r'')) with ((e1 ++ [comma]) :: tail_lines (e2 :: r'')).
    rewrite Step, N2.
    replace (((e0 ++ [comma]) ++ [nl]) ++ (e1 ++ [comma]) ++ [nl]) with (((e0 ++ [comma]) ++ [nl] ++ e1 ++ [comma]) ++ [nl]) by (repeat rewrite <- app_assoc; reflexivity).
    rewrite (read_tail (e2 :: r'') _ ltac:(discriminate) Fr).
    change (tail_items (e1 :: e2 :: r'')) with (([nl], e1, []) :: tail_items (e2 :: r'')).
    cbn [render_list]. destruct (tail_items (e2 :: r'')) eqn:T; [destruct r''; discriminate|]. rewrite <- T.
    unfold padded. cbn [app]. rewrite <- !app_assoc. cbn [app]. now rewrite <- !app_assoc.
Qed.

Lemma strip4_comma : strip4 comma = false. Proof. reflexivity. Qed.
Lemma pad_nl : pad_free comma strip4 [nl].
Proof. split; [repeat constructor|repeat constructor; discriminate]. Qed.
Lemma pad_nil : pad_free comma strip4 [].
Proof. split; constructor. Qed.

Lemma tail_items_ok : forall r, Forall (elt_ok comma strip4) r -> Forall (item_ok comma strip4) (tail_items r).
Proof.
  induction r as [|e r IH]; intros F; [constructor|]. inversion F as [|? ? He Fr]; subst. destruct r as [|e2 r'].
  - constructor; [|constructor]. split; [apply pad_nl|split; [apply pad_nl|exact He]].
  - change (tail_items (e :: e2 :: r')) with (([nl], e, []) :: tail_items (e2 :: r')). constructor; [|now apply IH].
    split; [apply pad_nl|split; [apply pad_nil|exact He]].
Qed.
Lemma tail_items_elts : forall r, map (fun it : str * str * str => snd (fst it)) (tail_items r) = r.
Proof.
  induction r as [|e r IH]; [reflexivity|]. destruct r as [|e2 r']; [reflexivity|].
  change (tail_items (e :: e2 :: r')) with (([nl], e, []) :: tail_items (e2 :: r')). cbn [map fst snd]. now rewrite IH.
Qed.

(* C10: a folded comma list decodes to its elements *)
Theorem C10_folded_comma_list e0 r : r <> [] -> e0 <> [] -> has_suffix [nl] (e0 ++ [comma]) = false ->
  Forall (elt_ok comma strip4) (e0 :: r) -> Forall line_elt r ->
  decode_list comma strip4 (read_conts (e0 ++ [comma]) (tail_lines r)) = e0 :: r.
Proof.
  intros NE Hne Hs Fe Fl. rewrite (read_folded e0 r NE Hne Hs Fl). inversion Fe as [|? ? He0 Fr]; subst.
  rewrite (C10_list_field comma strip4 strip4_comma); [cbn [map fst snd]; now rewrite tail_items_elts|discriminate| |].
  - constructor; [split; [apply pad_nil|split; [apply pad_nil|exact He0]]|now apply tail_items_ok].
  - (* the first element is not empty and does not start with a stripped byte *)
    destruct e0 as [|c0 t0]; [congruence|]. destruct He0 as [_ Hl _].
    apply (trim_ne_of_mem strip4 _ c0); [|exact Hl].
    destruct (tail_items r) as [|it its]; cbn [render_list padded app]; now left.
Qed.
Print Assumptions C10_folded_comma_list.

(* non-vacuity: "Binary: liba,\n libb-dev,\n libc" *)
Example C10_folded_instance :
  decode_list comma strip4 (read_conts (s "liba" ++ [comma]) (tail_lines [s "libb-dev"; s "libc"])) = [s "liba"; s "libb-dev"; s "libc"].
Proof. vm_compute. reflexivity. Qed.
