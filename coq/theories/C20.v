(* C20 - Upload Copy/Move/Remove act on the control file last and stay in-directory.
   Property theorems only.  Model: U20 - a file system as a map from (directory, plain name) to content, an event
   log, and a FAULT ORACLE [fault : nat -> bool] saying which primitive call (open, create, copy/close, rename,
   remove) fails; internal.Copy, DSC/Changes Copy, Move, Remove on top of it.  Every theorem holds for all file
   lists and ALL fault oracles.  The OS itself is an oracle: crash points are the model's primitive-call
   boundaries (atomicity of rename/write under power loss is not claimed). *)
From Coq Require Import List Ascii String Bool Arith Lia.
Require Import GS U20 U20b U20c U20d U20e.
Import ListNotations.

Section C20.
  Variable fault : nat -> bool.

  (* copy and move: whenever the control file arrives in the destination, every referenced file is already
     complete there *)
  Theorem C20_control_file_last_copy : forall h dest x x' ok, ~ In (h_file h) (h_listed h) ->
    do_copy fault h dest x = (x', ok) ->
    exists ext, log x' = log x ++ ext /\
      forall pre ev post, ext = pre ++ ev :: post -> arrives (dest, h_file h) ev ->
        forall n, In n (h_listed h) -> completed (dest, n) pre.
  Proof. intros h dest x x' ok Hn. unfold do_copy. apply C20_control_last; [apply copy_ok|exact Hn]. Qed.
  Theorem C20_control_file_last_move : forall h dest x x' ok, ~ In (h_file h) (h_listed h) ->
    do_move fault h dest x = (x', ok) ->
    exists ext, log x' = log x ++ ext /\
      forall pre ev post, ext = pre ++ ev :: post -> arrives (dest, h_file h) ev ->
        forall n, In n (h_listed h) -> completed (dest, n) pre.
  Proof. intros h dest x x' ok Hn. unfold do_move. apply C20_control_last; [apply rename_ok|exact Hn]. Qed.

  (* if a copy fails, the control file is not in the destination *)
  Theorem C20_failed_copy_leaves_no_control_file : forall h dest x x', ~ In (h_file h) (h_listed h) ->
    fs_get (dest, h_file h) (fs x) = None ->
    do_copy fault h dest x = (x', false) -> fs_get (dest, h_file h) (fs x') = None.
  Proof. exact (C20_copy_fail_clean fault). Qed.
  (* if a move fails, the control file is still at its source and not in the destination *)
  Theorem C20_failed_move_keeps_control_file : forall h dest x x', ~ In (h_file h) (h_listed h) ->
    do_move fault h dest x = (x', false) ->
    fs_get (h_dir h, h_file h) (fs x') = fs_get (h_dir h, h_file h) (fs x) /\
    fs_get (dest, h_file h) (fs x') = fs_get (dest, h_file h) (fs x).
  Proof. exact (C20_move_fail fault). Qed.

  (* after a successful copy every listed file and the control file in the destination equal the originals and
     the originals are unchanged; after a successful move the control file's content is in the destination *)
  Theorem C20_successful_copy_is_identical : forall h dest x x', h_dir h <> dest -> NoDup (h_listed h) -> ~ In (h_file h) (h_listed h) ->
    do_copy fault h dest x = (x', true) ->
    forall n, In n (h_file h :: h_listed h) ->
      fs_get (dest, n) (fs x') = fs_get (h_dir h, n) (fs x) /\ fs_get (h_dir h, n) (fs x) <> None /\
      fs_get (h_dir h, n) (fs x') = fs_get (h_dir h, n) (fs x).
  Proof. exact (C20_copy_identical fault). Qed.
  Theorem C20_successful_move : forall h dest x x', do_move fault h dest x = (x', true) ->
    exists x1, fs_get (dest, h_file h) (fs x') = fs_get (h_dir h, h_file h) (fs x1) /\ fs_get (h_dir h, h_file h) (fs x1) <> None.
  Proof. exact (C20_move_success fault). Qed.

  (* removal deletes the control file after every listed file; a failed removal leaves it in place *)
  Theorem C20_remove_control_file_last : forall h x x' ok, ~ In (h_file h) (h_listed h) -> do_remove fault h x = (x', ok) ->
    exists ext, log x' = log x ++ ext /\
      (forall pre post, ext = pre ++ EvRemove (h_dir h, h_file h) :: post ->
         forall n, In n (h_listed h) -> In (EvRemove (h_dir h, n)) pre) /\
      (ok = false -> fs_get (h_dir h, h_file h) (fs x') = fs_get (h_dir h, h_file h) (fs x)).
  Proof. exact (C20_remove_last fault). Qed.

  (* whatever names are listed: every entry touched lies in the control file's directory or in the destination;
     a listed name that is not a plain file name stops the operation before anything is touched *)
  Theorem C20_confined_copy : forall h dest x x' ok, do_copy fault h dest x = (x', ok) ->
    exists ext, log x' = log x ++ ext /\
      forall ev e, In ev ext -> In e (touches ev) ->
        exists n, plain n = true /\ (e = (h_dir h, n) \/ e = (dest, n)) \/ (n = h_file h /\ (e = (h_dir h, n) \/ e = (dest, n))).
  Proof. intros h dest x x' ok. unfold do_copy. apply C20_confined. apply copy_touch. Qed.
  Theorem C20_confined_move : forall h dest x x' ok, do_move fault h dest x = (x', ok) ->
    exists ext, log x' = log x ++ ext /\
      forall ev e, In ev ext -> In e (touches ev) ->
        exists n, plain n = true /\ (e = (h_dir h, n) \/ e = (dest, n)) \/ (n = h_file h /\ (e = (h_dir h, n) \/ e = (dest, n))).
  Proof. intros h dest x x' ok. unfold do_move. apply C20_confined. apply rename_touch. Qed.
  Theorem C20_non_plain_names_refused : forall op h dest x, listed_ok h = false ->
    transfer op h dest x = (x, false).
  Proof. exact C20_traversal_refused. Qed.
  (* ... listed_ok: every listed name is a plain file name AND none of them is the control file itself.  A control file that
     lists itself is refused before anything is touched - by Copy, Move and Remove (repair 7cf001d of the r13 finding: it was
     copied / moved / removed as one of its own files, before the files listed after it) *)
  Theorem C20_control_file_listing_itself_is_refused : forall op h dest x, In (h_file h) (h_listed h) ->
    transfer op h dest x = (x, false) /\ do_remove fault h x = (x, false).
  Proof.
    intros op h dest x Hin. pose proof (listed_self_not_ok h Hin) as E. split; [now apply C20_traversal_refused|].
    unfold do_remove. now rewrite E.
  Qed.

  (* removal touches nothing but listed plain names and the control file, in the handle's own directory, and leaves
     every other directory as it was; when it succeeds none of those files is left *)
  Theorem C20_confined_remove : forall h x x' ok, do_remove fault h x = (x', ok) ->
    exists ext, log x' = log x ++ ext /\
      forall ev, In ev ext -> exists n, (n = h_file h \/ In n (h_listed h) /\ plain n = true) /\ ev = EvRemove (h_dir h, n).
  Proof. exact (C20_remove_confined fault). Qed.
  Theorem C20_remove_leaves_other_directories : forall h x x' ok e', do_remove fault h x = (x', ok) -> fst e' <> h_dir h ->
    fs_get e' (fs x') = fs_get e' (fs x).
  Proof. exact (C20_remove_frame fault). Qed.
  Theorem C20_successful_remove : forall h x x', ~ In (h_file h) (h_listed h) -> do_remove fault h x = (x', true) ->
    forall n, In n (h_file h :: h_listed h) -> fs_get (h_dir h, n) (fs x') = None.
  Proof. exact (C20_remove_success fault). Qed.

  (* HISTORIES: the handle points at the new location after a successful copy or move (after h dest true), so a
     removal through the same handle deletes the copies in the destination and leaves every original in place *)
  Theorem C20_copy_then_remove_through_one_handle : forall h dest x x1 x2, h_dir h <> dest -> NoDup (h_listed h) -> ~ In (h_file h) (h_listed h) ->
    do_copy fault h dest x = (x1, true) -> do_remove fault (after h dest true) x1 = (x2, true) ->
    forall n, In n (h_file h :: h_listed h) ->
      fs_get (dest, n) (fs x2) = None /\ fs_get (h_dir h, n) (fs x2) = fs_get (h_dir h, n) (fs x) /\ fs_get (h_dir h, n) (fs x) <> None.
  Proof. exact (C20_copy_then_remove fault). Qed.

  (* a successful move: every listed file and the control file is in the destination with the content it had, and
     none of them is left in the source directory; other directories are untouched *)
  Theorem C20_successful_move_is_identical : forall h dest x x', h_dir h <> dest -> NoDup (h_listed h) -> ~ In (h_file h) (h_listed h) ->
    do_move fault h dest x = (x', true) ->
    forall n, In n (h_file h :: h_listed h) ->
      fs_get (dest, n) (fs x') = fs_get (h_dir h, n) (fs x) /\ fs_get (h_dir h, n) (fs x) <> None /\ fs_get (h_dir h, n) (fs x') = None.
  Proof. exact (C20_move_identical fault). Qed.
  Theorem C20_move_leaves_other_directories : forall h dest x x' ok e, do_move fault h dest x = (x', ok) ->
    fst e <> h_dir h -> fst e <> dest -> fs_get e (fs x') = fs_get e (fs x).
  Proof. exact (C20_move_frame fault). Qed.
  (* more histories through one handle *)
  Theorem C20_move_then_remove_through_one_handle : forall h dest x x1 x2, h_dir h <> dest -> NoDup (h_listed h) -> ~ In (h_file h) (h_listed h) ->
    do_move fault h dest x = (x1, true) -> do_remove fault (after h dest true) x1 = (x2, true) ->
    forall n, In n (h_file h :: h_listed h) -> fs_get (dest, n) (fs x2) = None /\ fs_get (h_dir h, n) (fs x2) = None.
  Proof. exact (C20_move_then_remove fault). Qed.
  Theorem C20_copy_then_move_through_one_handle : forall h d1 d2 x x1 x2, h_dir h <> d1 -> h_dir h <> d2 -> d1 <> d2 ->
    NoDup (h_listed h) -> ~ In (h_file h) (h_listed h) ->
    do_copy fault h d1 x = (x1, true) -> do_move fault (after h d1 true) d2 x1 = (x2, true) ->
    forall n, In n (h_file h :: h_listed h) ->
      fs_get (d2, n) (fs x2) = fs_get (h_dir h, n) (fs x) /\ fs_get (h_dir h, n) (fs x) <> None /\
      fs_get (d1, n) (fs x2) = None /\ fs_get (h_dir h, n) (fs x2) = fs_get (h_dir h, n) (fs x).
  Proof. exact (C20_copy_then_move fault). Qed.
End C20.

(* the RETRY history: a Copy that failed - at any primitive call, under any fault oracle - has not touched the source
   directory; when it is tried again through the same handle into the same destination and succeeds, every file in the
   destination is identical to its original and the originals are intact, whatever the first attempt left behind *)
Require U20f.
Theorem C20_copy_leaves_the_source_directory : forall fault h dest x x' ok, h_dir h <> dest -> do_copy fault h dest x = (x', ok) ->
  forall n, fs_get (h_dir h, n) (fs x') = fs_get (h_dir h, n) (fs x).
Proof. exact U20f.copy_source_frame. Qed.
Theorem C20_copy_retry_after_failure : forall fault1 fault2 h dest x x1 x2, h_dir h <> dest -> NoDup (h_listed h) -> ~ In (h_file h) (h_listed h) ->
  do_copy fault1 h dest x = (x1, false) -> do_copy fault2 h dest x1 = (x2, true) ->
  forall n, In n (h_file h :: h_listed h) ->
    fs_get (dest, n) (fs x2) = fs_get (h_dir h, n) (fs x) /\ fs_get (h_dir h, n) (fs x) <> None /\
    fs_get (h_dir h, n) (fs x2) = fs_get (h_dir h, n) (fs x).
Proof. exact U20f.copy_retry_is_identical. Qed.
Print Assumptions C20_copy_retry_after_failure.

(* the path library underneath, no longer an oracle: for a plain name (what checkListedFilename accepts) and a clean
   absolute directory, path.Join(dir, name) is the entry `name` of that directory - the path the model's (directory,
   name) pairs stand for - its filepath.Base is the name and its filepath.Dir the directory; PATH.v is run against the Go
   functions by the tie *)
Require PATH.
Theorem C20_plain_name_is_an_entry_of_its_directory : forall d cs n, PATH.clean_abs d cs -> cs <> [] -> PATH.plain n = true ->
  PATH.join2 d n = d ++ PATH.slash :: n /\ PATH.base (PATH.join2 d n) = n /\ PATH.dir (PATH.join2 d n) = d /\
  PATH.clean_abs (PATH.join2 d n) (cs ++ [n]).
Proof.
  intros d cs n C NE P. destruct (PATH.join_plain d cs n C P) as [J A]. destruct cs as [|c0 cr]; [congruence|].
  rewrite J. split; [reflexivity|]. split; [now apply PATH.base_of_entry|]. split; [now apply (PATH.dir_of_entry d (c0 :: cr))|].
  now rewrite <- J.
Qed.
Theorem C20_plain_is_checklistedfilename : forall n, PATH.plain n = U20.plain n.
Proof. reflexivity. Qed.
Example C20_traversal_names_leave_the_directory :
  PATH.join2 (GS.s "/srv/incoming") (GS.s "../outside/canary") = GS.s "/srv/outside/canary" /\
  PATH.plain (GS.s "../outside/canary") = false /\ PATH.plain (GS.s "..") = false /\ PATH.plain (GS.s "x_1.0.dsc") = true.
Proof. vm_compute. repeat split. Qed.
Print Assumptions C20_plain_name_is_an_entry_of_its_directory.
Print Assumptions C20_control_file_last_copy.
Print Assumptions C20_failed_copy_leaves_no_control_file.
Print Assumptions C20_successful_copy_is_identical.
Print Assumptions C20_remove_control_file_last.
Print Assumptions C20_confined_copy.
Print Assumptions C20_confined_remove.
Print Assumptions C20_copy_then_remove_through_one_handle.
Print Assumptions C20_successful_move_is_identical.
Print Assumptions C20_copy_then_move_through_one_handle.

(* ---- names that denote other files (U20L): the destination directory already holds a symbolic link under a listed
   name.  Since /repo 966caf3 the copy removes the name and creates it exclusively; the theorems are about that
   arrangement, and the earlier one (os.Create follows the link) is refuted by the r14 finding's own example. ---- *)
Require U20L.
(* whether the run of copies succeeds or fails half way, whatever links the destination held: no name outside the
   destination directory changes - not the file it is, not the link it is *)
Theorem C20_copy_does_not_write_through_links : forall fuel dir dest names f e,
  str_eqb (fst e) dest = false -> U20L.lget e (fst (U20L.copies fuel dir dest names f)) = U20L.lget e f.
Proof. exact U20L.copies_stay_in_the_destination. Qed.
(* one copy: every name keeps its node but the destination name, which is a file holding the source's bytes *)
Theorem C20_copy_replaces_the_name : forall fuel src dst f f' c,
  U20L.same_file fuel src dst f = false -> U20L.read fuel src f = Some c -> U20L.copy_replace fuel src dst f = Some f' ->
  forall e, U20L.lget e f' = if entry_eqb e dst then Some (U20L.File c) else U20L.lget e f.
Proof. exact U20L.copy_replace_is_fs_put. Qed.
Theorem C20_copy_delivers_what_the_source_denotes : forall fuel src dst f f' c,
  U20L.copy_replace fuel src dst f = Some f' -> U20L.read fuel src f = Some c -> U20L.read fuel dst f' = Some c.
Proof. exact U20L.copy_replace_delivers. Qed.
(* without links this is U20's fs_put - the file system the theorems above this section are about *)
Theorem C20_link_free_copy_is_fs_put : forall fuel src dst f c, entry_eqb src dst = false -> fs_get src f = Some c ->
  U20L.copy_replace fuel src dst (U20L.erase f) = Some (U20L.erase (fs_put dst c f)) /\
  U20L.copy_through fuel src dst (U20L.erase f) = Some (U20L.erase (fs_put dst c f)).
Proof. exact U20L.link_free_copy. Qed.
(* a run of moves out of dir into dest, succeeding or failing half way, touches no name of any other directory; a plain file is
   renamed, a link among the moved files arrives as the bytes it denoted and is removed at its source - what it pointed at
   stays (internal.Move, the repair of the r15 finding: a link renamed over the file it points at, or left dangling) *)
Theorem C20_move_stays_in_the_two_directories : forall fuel dir dest names f e,
  str_eqb (fst e) dest = false -> str_eqb (fst e) dir = false -> U20L.lget e (fst (U20L.moves fuel dir dest names f)) = U20L.lget e f.
Proof. exact U20L.moves_stay_in_the_two_directories. Qed.
Theorem C20_moved_link_arrives_as_its_bytes : forall src dst f f' fuel t c, U20L.move_node fuel src dst f = Some f' ->
  U20L.lget src f = Some (U20L.Link t) -> U20L.read fuel src f = Some c -> U20L.same_file fuel src dst f = false ->
  entry_eqb src dst = false -> U20L.lget dst f' = Some (U20L.File c) /\ U20L.lget src f' = None.
Proof. exact U20L.move_node_delivers_link. Qed.
Example C20_written_through_before_the_repair : exists f',
  U20L.copy_through 40 (GS.s "upload", GS.s "foo_1.0.tar.gz") (GS.s "incoming", GS.s "foo_1.0.tar.gz") U20L.ex_fs = Some f' /\
  U20L.lget (GS.s "outside", GS.s "precious") f' = Some (U20L.File (GS.s "payload")) /\
  U20L.lget (GS.s "outside", GS.s "precious") U20L.ex_fs = Some (U20L.File (GS.s "precious bytes")).
Proof. exact U20L.copy_through_refuted. Qed.
Print Assumptions C20_copy_does_not_write_through_links.
Print Assumptions C20_copy_replaces_the_name.
Print Assumptions C20_copy_delivers_what_the_source_denotes.
Print Assumptions C20_link_free_copy_is_fs_put.
Print Assumptions C20_move_stays_in_the_two_directories.
