(* C09 core: schema-driven ConvertToParagraph / decodeStruct for scalar kinds (after repairs #15, #16) *)
From Coq Require Import List Ascii String Bool Arith NArith ZArith Lia.
Require Import GS V3.
Import ListNotations.

Inductive kind := KString | KInt | KUint | KBool.
Inductive value := VS (x : str) | VI (z : Z) | VU (n : N) | VB (b : bool).
Definition kind_of (v : value) : kind := match v with VS _ => KString | VI _ => KInt | VU _ => KUint | VB _ => KBool end.
Definition zero_of (k : kind) : value := match k with KString => VS [] | KInt => VI 0 | KUint => VU 0 | KBool => VB false end.

Record fdesc := { fkey : str; fkind : kind; frequired : bool }.
Definition schema := list fdesc.
Definition record := list value.                        (* one value per field, in declaration order *)

(* strconv.Itoa / FormatUint and Atoi / ParseUint on the values we print *)
Definition itoa_z (z : Z) : str := if (z <? 0)%Z then minus :: itoa (Z.to_N (- z)) else itoa (Z.to_N z).
Definition atoi_z (x : str) : option Z :=
  match x with
  | [] => None
  | c :: r => if ceq c minus then (match r with [] => None | _ => option_map (fun n => (- Z.of_N n)%Z) (dv 0 r) end)
              else if ceq c plus then (match r with [] => None | _ => option_map Z.of_N (dv 0 r) end)
              else option_map Z.of_N (dv 0 x)
  end.
Definition yes := s "yes". Definition no := s "no".

Definition marshal_value (v : value) : str :=
  match v with VS x => x | VI z => itoa_z z | VU n => itoa n | VB b => if b then yes else no end.
Definition decode_value (k : kind) (t : str) : option value :=
  match k with
  | KString => Some (VS t)
  | KInt => if str_eqb t [] then Some (VI 0) else option_map VI (atoi_z t)
  | KUint => if str_eqb t [] then Some (VU 0) else option_map VU (dv 0 t)
  | KBool => Some (VB (str_eqb t yes))
  end.

Lemma itoa_head_digit n : exists c r, itoa n = c :: r /\ is_digit c = true.
Proof.
  pose proof (itoa_nonempty n) as NE. pose proof (itoa_digits n) as D. destruct (itoa n) as [|c r]; [congruence|].
  cbn in D. apply andb_true_iff in D as [D _]. eauto.
Qed.

Lemma atoi_itoa_z z : atoi_z (itoa_z z) = Some z.
Proof.
  unfold itoa_z. destruct (Z.ltb_spec z 0).
  - cbn [atoi_z]. destruct (ceq_spec minus minus); [|congruence]. destruct (itoa_head_digit (Z.to_N (- z))) as (c&r&E&_).
    rewrite E. rewrite <- E. rewrite dv_itoa. cbn. f_equal. lia.
  - destruct (itoa_head_digit (Z.to_N z)) as (c&r&E&D). rewrite E. cbn [atoi_z].
    destruct (ceq_spec c minus) as [->|]; [discriminate D|]. destruct (ceq_spec c plus) as [->|]; [discriminate D|].
    rewrite <- E, dv_itoa. cbn. f_equal. lia.
Qed.

Theorem C09_value_roundtrip v : decode_value (kind_of v) (marshal_value v) = Some v.
Proof.
  destruct v as [x|z|n|b]; cbn [kind_of marshal_value decode_value].
  - reflexivity.
  - destruct (str_eqb_spec (itoa_z z) []) as [E|_].
    + exfalso. unfold itoa_z in E. destruct (z <? 0)%Z; [discriminate|]. now apply itoa_nonempty in E.
    + now rewrite atoi_itoa_z.
  - destruct (str_eqb_spec (itoa n) []) as [E|_]; [now apply itoa_nonempty in E|]. now rewrite dv_itoa.
  - destruct b; reflexivity.
Qed.

(* ---- paragraphs: association list + order, as in control/parse.go ---- *)
Definition assoc := list (str * str).
Fixpoint lookup (k : str) (vs : assoc) : option str :=
  match vs with (k', v) :: r => if str_eqb k' k then Some v else lookup k r | [] => None end.
Record para := { order : list str; values : assoc }.

(* convertToParagraph: the struct's own contribution *)
Fixpoint own (sch : schema) (r : record) : list (str * str) :=
  match sch, r with
  | f :: sch', v :: r' =>
      let data := marshal_value v in
      if str_eqb data [] && negb (frequired f) then own sch' r' else (fkey f, data) :: own sch' r'
  | _, _ => []
  end.
Fixpoint omitted (sch : schema) (r : record) : list str :=
  match sch, r with
  | f :: sch', v :: r' =>
      if str_eqb (marshal_value v) [] && negb (frequired f) then fkey f :: omitted sch' r' else omitted sch' r'
  | _, _ => []
  end.
Definition mem (k : str) (l : list str) : bool := existsb (str_eqb k) l.
(* Paragraph.Update after dropping the omitted keys from the embedded paragraph (repair #16) *)
Definition convert (sch : schema) (r : record) (found : para) : para :=
  let new := own sch r in
  let base := filter (fun k => negb (mem k (omitted sch r))) (order found) in
  {| order := base ++ filter (fun k => negb (mem k base)) (map fst new);
     values := new ++ filter (fun kv => negb (mem (fst kv) (map fst new))) (values found) |}.

(* decodeStruct on the fields of the schema *)
Fixpoint decode (sch : schema) (p : assoc) : option record :=
  match sch with
  | [] => Some []
  | f :: sch' =>
      match lookup (fkey f) p with
      | Some t => match decode_value (fkind f) t, decode sch' p with Some v, Some r => Some (v :: r) | _, _ => None end
      | None => if frequired f then None
                else option_map (cons (zero_of (fkind f))) (decode sch' p)
      end
  end.

Definition typed (sch : schema) (r : record) : Prop := Forall2 (fun f v => kind_of v = fkind f) sch r.
Definition keys_distinct (sch : schema) : Prop := NoDup (map fkey sch).

Lemma lookup_app_notin k pre X : ~ In k (map fst pre) -> lookup k (pre ++ X) = lookup k X.
Proof.
  induction pre as [|[a b] pre IH]; intros H; [reflexivity|]. cbn [app lookup].
  destruct (str_eqb_spec a k) as [->|]; [exfalso; apply H; now left|]. apply IH. intros I. apply H. now right.
Qed.
Lemma own_keys : forall sch r k, In k (map fst (own sch r)) -> In k (map fkey sch).
Proof.
  induction sch as [|f sch IH]; intros [|v r] k; cbn [own]; try contradiction.
  destruct (_ && _); cbn [map]; [intros H; right; eapply IH; eauto|].
  intros [<-|H]; [now left|right; eapply IH; eauto].
Qed.
Lemma lookup_notin k X : ~ In k (map fst X) -> lookup k X = None.
Proof.
  induction X as [|[a b] X IH]; intros H; [reflexivity|]. cbn [lookup].
  destruct (str_eqb_spec a k) as [->|]; [exfalso; apply H; now left|]. apply IH. intros I. apply H. now right.
Qed.

Lemma empty_marshal v : marshal_value v = [] -> v = zero_of (kind_of v).
Proof.
  destruct v as [x|z|n|b]; cbn.
  - now intros ->.
  - intros E. exfalso. unfold itoa_z in E. destruct (z <? 0)%Z; [discriminate|]. now apply itoa_nonempty in E.
  - intros E. now apply itoa_nonempty in E.
  - destruct b; discriminate.
Qed.

Lemma decode_own : forall sch r pre, typed sch r -> keys_distinct sch ->
  (forall k, In k (map fkey sch) -> ~ In k (map fst pre)) ->
  decode sch (pre ++ own sch r) = Some r.
Proof.
  induction sch as [|f sch IH]; intros r pre T D Hpre; inversion T as [|? v ? r' Hk T']; subst; [reflexivity|].
  inversion D as [|? ? Hnot D']; subst. cbn [decode own].
  assert (Hf : ~ In (fkey f) (map fst pre)) by (apply Hpre; now left).
  destruct (str_eqb_spec (marshal_value v) []) as [Em|Em]; cbn [andb].
  - destruct (frequired f) eqn:R; cbn [negb].
    + (* required: written even though empty *)
      rewrite (lookup_app_notin _ pre _ Hf). cbn [lookup]. destruct (str_eqb_spec (fkey f) (fkey f)); [|congruence].
      rewrite <- Hk, C09_value_roundtrip.
      replace (pre ++ (fkey f, marshal_value v) :: own sch r') with ((pre ++ [(fkey f, marshal_value v)]) ++ own sch r') by (now rewrite <- app_assoc).
      rewrite IH; [reflexivity|exact T'|exact D'|].
      intros k Hin. rewrite map_app, in_app_iff. cbn. intros [I|[I|[]]]; [apply (Hpre k); [now right|exact I]|]. subst. contradiction.
    + (* optional and empty: omitted, and decoded to the zero value, which is what it was *)
      rewrite (lookup_app_notin _ pre _ Hf).
      rewrite (lookup_notin (fkey f) (own sch r')) by (intros I; apply Hnot; eapply own_keys; eauto).
      rewrite IH; [|exact T'|exact D'|intros k Hin; apply Hpre; now right]. cbn. f_equal. f_equal.
      rewrite <- Hk. symmetry. now apply empty_marshal.
  - rewrite (lookup_app_notin _ pre _ Hf). cbn [lookup]. destruct (str_eqb_spec (fkey f) (fkey f)); [|congruence].
    rewrite <- Hk, C09_value_roundtrip.
    replace (pre ++ (fkey f, marshal_value v) :: own sch r') with ((pre ++ [(fkey f, marshal_value v)]) ++ own sch r') by (now rewrite <- app_assoc).
    rewrite IH; [reflexivity|exact T'|exact D'|].
    intros k Hin. rewrite map_app, in_app_iff. cbn. intros [I|[I|[]]]; [apply (Hpre k); [now right|exact I]|]. subst. contradiction.
Qed.

(* C09: unmarshalling the marshalled paragraph reproduces the record field by field *)
Theorem C09_roundtrip sch r : typed sch r -> keys_distinct sch ->
  decode sch (values (convert sch r {| order := []; values := [] |})) = Some r.
Proof.
  intros T D. unfold convert. cbn [values order filter]. rewrite app_nil_r.
  apply (decode_own sch r [] T D). intros k _ [].
Qed.

(* optional empty fields are omitted, required fields are always written *)
Theorem C09_written sch r k : typed sch r ->
  (In k (map fst (own sch r)) <->
   exists f v, In (f, v) (combine sch r) /\ fkey f = k /\ (frequired f = true \/ marshal_value v <> [])).
Proof.
  intros T. induction T as [|f v sch r Hk T IH]; cbn [own combine]; [split; [contradiction|intros (f&v&I&_); inversion I]|].
  destruct (str_eqb_spec (marshal_value v) []) as [Em|Em]; cbn [andb].
  - destruct (frequired f) eqn:R; cbn [negb map].
    + split.
      * intros [<-|H]; [exists f, v; split; [now left|auto]|]. apply IH in H as (f'&v'&I&E&C). exists f', v'. split; [now right|auto].
      * intros (f'&v'&[I|I]&E&C); [inversion I; subst; now left|]. right. apply IH. eauto.
    + rewrite IH. split.
      * intros (f'&v'&I&E&C). exists f', v'. split; [now right|auto].
      * intros (f'&v'&[I|I]&E&C); [inversion I; subst; destruct C; congruence|]. eauto.
  - cbn [map]. split.
    + intros [<-|H]; [exists f, v; split; [now left|auto]|]. apply IH in H as (f'&v'&I&E&C). exists f', v'. split; [now right|auto].
    + intros (f'&v'&[I|I]&E&C); [inversion I; subst; now left|]. right. apply IH. eauto.
Qed.

(* a required field that is absent makes decoding fail *)
Theorem C09_required_missing : forall sch p f, In f sch -> frequired f = true -> lookup (fkey f) p = None -> decode sch p = None.
Proof.
  induction sch as [|g sch IH]; intros p f Hin R L; [contradiction|]. cbn [decode]. destruct Hin as [->|Hin].
  - now rewrite L, R.
  - destruct (lookup (fkey g) p).
    + rewrite (IH p f Hin R L). destruct (decode_value _ _); reflexivity.
    + destruct (frequired g); [reflexivity|]. now rewrite (IH p f Hin R L).
Qed.

(* unknown fields of the embedded paragraph are re-emitted unchanged, in their original relative order,
   and before any field the struct adds *)
Lemma filter_filter_weak {A} (P Q : A -> bool) l : (forall x, P x = true -> Q x = true) -> filter P (filter Q l) = filter P l.
Proof.
  intros H. induction l as [|a l IH]; [reflexivity|]. cbn [filter]. destruct (Q a) eqn:Qa; cbn [filter].
  - now rewrite IH.
  - destruct (P a) eqn:Pa; [rewrite (H a Pa) in Qa; discriminate|exact IH].
Qed.
Lemma filter_none {A} (P : A -> bool) l : (forall x, In x l -> P x = false) -> filter P l = [].
Proof.
  intros H. induction l as [|a l IH]; [reflexivity|]. cbn [filter]. rewrite (H a (or_introl eq_refl)). apply IH. intros x Hx. apply H. now right.
Qed.
Lemma mem_in k l : mem k l = true <-> In k l.
Proof.
  unfold mem. rewrite existsb_exists. split.
  - intros (x&Hx&E). destruct (str_eqb_spec k x); [now subst|discriminate].
  - intros H. exists k. split; [exact H|]. destruct (str_eqb_spec k k); congruence.
Qed.
Lemma omitted_keys : forall sch r k, In k (omitted sch r) -> In k (map fkey sch).
Proof.
  induction sch as [|f sch IH]; intros [|v r] k; cbn [omitted]; try contradiction.
  destruct (_ && _); cbn [map]; [intros [<-|H]; [now left|right; eapply IH; eauto]|intros H; right; eapply IH; eauto].
Qed.

Theorem C09_passthrough_order sch r found :
  filter (fun k => negb (mem k (map fkey sch))) (order (convert sch r found))
  = filter (fun k => negb (mem k (map fkey sch))) (order found).
Proof.
  unfold convert. cbn [order]. rewrite filter_app.
  rewrite (filter_none _ (filter _ (map fst (own sch r)))).
  - rewrite app_nil_r. apply filter_filter_weak. intros k Hk. apply negb_true_iff in Hk. apply negb_true_iff.
    destruct (mem k (omitted sch r)) eqn:M; [|reflexivity]. apply mem_in in M. apply omitted_keys in M. apply mem_in in M. congruence.
  - intros k Hk. apply filter_In in Hk as [Hk _]. apply negb_false_iff. apply mem_in. eapply own_keys; eauto.
Qed.

Print Assumptions C09_roundtrip.
Print Assumptions C09_passthrough_order.
