(* C07 invariant and C08 paragraph level, on top of R2 *)
From Coq Require Import List Ascii String Bool Arith Lia.
Require Import GS R2.
Import ListNotations.

(* ---------- C07: for any input whatsoever, a returned paragraph lists exactly its fields, once each ---------- *)
Definition pinv (p : para) : Prop := NoDup (order p) /\ map fst (values p) = order p.

Lemma mem_in k vs : mem k vs = true <-> In k (map fst vs).
Proof.
  induction vs as [|[k' v] r IH]; cbn; [split; [discriminate|contradiction]|].
  destruct (str_eqb_spec k' k); cbn; [split; auto|]. rewrite IH. split; [auto|]. intros [E|H]; [contradiction|exact H].
Qed.
Lemma setv_keys k v vs : mem k vs = true -> map fst (setv k v vs) = map fst vs.
Proof.
  induction vs as [|[k' v'] r IH]; cbn; [discriminate|]. destruct (str_eqb_spec k' k); cbn; [reflexivity|]. intros H. now rewrite IH.
Qed.

Lemma NoDup_snoc {A} (a : A) l : ~ In a l -> NoDup l -> NoDup (l ++ [a]).
Proof. intros H1 H2. apply (NoDup_Add (Add_app a l [])). rewrite app_nil_r. split; auto. Qed.

Lemma next_inv : forall ls p last p' rest,
  pinv p -> (order p <> [] -> mem last (values p) = true) ->
  next p last ls = RPara p' rest -> pinv p'.
Proof.
  induction ls as [|l ls IH]; intros p last p' rest I L H; cbn [next] in H.
  - destruct (order p); [discriminate|]. now inversion H; subst.
  - destruct (is_blank_line l).
    { destruct (order p) eqn:O; [eapply IH; [exact I| |exact H]; rewrite O; congruence|]. now inversion H; subst. }
    destruct (starts hash l); [eapply IH; [exact I|exact L|exact H]|].
    destruct (starts sp l || starts tab l).
    + destruct (order p) as [|o os] eqn:O.
      * destruct (str_eqb (trim_space l) []); [|discriminate]. eapply IH; [exact I| |exact H]. rewrite O. congruence.
      * assert (M : mem last (values p) = true) by (apply L; discriminate).
        eapply IH; [| |exact H].
        -- destruct I as [ND K]. split; cbn [order values]; [now rewrite <- O|]. rewrite setv_keys by exact M. now rewrite K, O.
        -- intros _. cbn [values]. apply mem_setv.
    + destruct (cut_colon [] l) as [[k v]|]; [|discriminate].
      destruct (starts hash (trim_space k) || starts dashc (trim_space k)); [discriminate|].
      destruct (mem (trim_space k) (values p)) eqn:M; [discriminate|].
      eapply IH; [| |exact H].
      * destruct I as [ND K]. split; cbn [order values].
        -- apply NoDup_snoc; [|exact ND]. rewrite <- K. intros Hin. apply mem_in in Hin. congruence.
        -- rewrite map_app. cbn. now rewrite K.
      * intros _. cbn [values]. apply mem_app_new.
Qed.

Theorem C07_invariant : forall fuel ls ps, all_fuel fuel ls = Some ps -> Forall pinv ps.
Proof.
  induction fuel as [|f IH]; intros ls ps H; [discriminate|]. cbn [all_fuel] in H.
  destruct (next empty_para [] ls) as [p rest| |] eqn:N.
  - destruct (all_fuel f rest) as [ps'|] eqn:A; [|discriminate]. cbn in H. inversion H; subst. constructor.
    + eapply next_inv; [| |exact N]; [split; [constructor|reflexivity]|cbn; congruence].
    + eapply IH; eauto.
  - inversion H. constructor.
  - discriminate.
Qed.
Print Assumptions C07_invariant.

(* ---------- C08: a whole paragraph, written then read ---------- *)
Lemma lines_of_cons l rest : free nl l -> lines_of (l ++ nl :: rest) = l :: lines_of rest.
Proof.
  intros Hf. rewrite lines_of_nonempty by (destruct l; discriminate). rewrite (split_cons nl l rest Hf).
  destruct rest as [|c r].
  - cbn. reflexivity.
  - rewrite (lines_of_nonempty (c :: r)) by discriminate. cbn [rev].
    pose proof (split_nonempty nl (c :: r)) as NE.
    destruct (rev (split nl (c :: r))) as [|x xs] eqn:E.
    + exfalso. apply NE. apply (f_equal (@rev str)) in E. now rewrite rev_involutive in E.
    + cbn [app]. destruct x as [|y ys].
      * rewrite rev_app_distr. reflexivity.
      * reflexivity.
Qed.

Lemma lines_of_unlines_app ls y : Forall (free nl) ls -> lines_of (unlines ls ++ y) = ls ++ lines_of y.
Proof.
  induction ls as [|l ls IH]; intros H; [reflexivity|]. inversion H; subst.
  unfold unlines. cbn [map List.concat]. fold (unlines ls). rewrite <- !app_assoc. cbn [app].
  rewrite lines_of_cons by assumption. cbn [app]. f_equal. now apply IH.
Qed.

(* a value in reader form, as in R2 *)
Record wf_field (kv : str * (str * list str)) : Prop := {
  wk : key_ok (fst kv);
  w0 : fst (snd kv) <> [] /\ free nl (fst (snd kv)) /\ no_lead (fst (snd kv)) /\ no_trail (fst (snd kv));
  wc : Forall wf_cont' (snd (snd kv)) }.

Definition field_text (kv : str * (str * list str)) : str := write_field (fst kv) (reader_form (fst (snd kv)) (snd (snd kv))).
Definition field_pair (kv : str * (str * list str)) : str * str := (fst kv, reader_form (fst (snd kv)) (snd (snd kv))).

Lemma write_field_unlines kv : wf_field kv -> exists ls, field_text kv = unlines ls /\ Forall (free nl) ls /\
  forall p last more, mem (fst kv) (values p) = false ->
    next p last (ls ++ more) = next {| order := order p ++ [fst kv]; values := values p ++ [field_pair kv] |} (fst kv) more.
Proof.
  intros [Hk (H1&H2&H3&H4) Hc]. destruct kv as [k [l0 cs]]. cbn [fst snd] in *.
  unfold field_text. cbn [fst snd]. rewrite write_field_lines, fold_lines_form by assumption.
  eexists. split; [reflexivity|]. split.
  - cbn [field_lines]. constructor.
    + apply free_app; [apply (k_nonl k Hk)|]. apply free_app; [repeat constructor; discriminate|exact H2].
    + rewrite Forall_forall. intros x Hx. apply in_map_iff in Hx as (y&<-&Hy). apply in_map_iff in Hy as (z&<-&Hz).
      constructor; [discriminate|]. apply dot_line_free. rewrite Forall_forall in Hc. now destruct (Hc z Hz).
  - intros p last more Hm. pose proof (field_write_read p last k l0 cs more Hk Hm H1 H2 H3 H4 Hc) as F.
    rewrite write_field_lines, fold_lines_form in F by assumption.
    rewrite lines_of_unlines in F; [exact F|].
    cbn [field_lines]. constructor.
    + apply free_app; [apply (k_nonl k Hk)|]. apply free_app; [repeat constructor; discriminate|exact H2].
    + rewrite Forall_forall. intros x Hx. apply in_map_iff in Hx as (y&<-&Hy). apply in_map_iff in Hy as (z&<-&Hz).
      constructor; [discriminate|]. apply dot_line_free. rewrite Forall_forall in Hc. now destruct (Hc z Hz).
Qed.

Lemma mem_app_other k k' v vs : k <> k' -> mem k (vs ++ [(k', v)]) = mem k vs.
Proof.
  intros N. induction vs as [|[a b] r IH]; cbn.
  - destruct (str_eqb_spec k' k); [congruence|reflexivity].
  - now rewrite IH.
Qed.

(* reading the concatenated fields of a paragraph extends the paragraph under construction by exactly those fields *)
Lemma next_fields : forall fs p last more,
  Forall wf_field fs -> NoDup (map fst fs) -> (forall kv, In kv fs -> mem (fst kv) (values p) = false) ->
  exists last', next p last (lines_of (List.concat (map field_text fs)) ++ more) =
    next {| order := order p ++ map fst fs; values := values p ++ map field_pair fs |} last' more.
Proof.
  induction fs as [|kv fs IH]; intros p last more W ND Fresh.
  - exists last. cbn. rewrite !app_nil_r. destruct p; reflexivity.
  - inversion W as [|? ? Wkv Wfs]; subst. inversion ND as [|? ? Hnot ND']; subst.
    destruct (write_field_unlines kv Wkv) as (ls&E&Fl&R).
    cbn [map List.concat]. rewrite E, (lines_of_unlines_app ls _ Fl), <- app_assoc.
    rewrite R by (apply Fresh; now left).
    set (p1 := {| order := order p ++ [fst kv]; values := values p ++ [field_pair kv] |}).
    destruct (IH p1 (fst kv) more Wfs ND') as (last'&IHe).
    + intros kv' Hin. subst p1. cbn [values]. unfold field_pair at 1. rewrite mem_app_other.
      * apply Fresh. now right.
      * intros Eq. apply Hnot. rewrite <- Eq. now apply in_map.
    + exists last'. rewrite IHe. subst p1. cbn [order values map]. now rewrite <- !app_assoc.
Qed.

(* C08: a paragraph of well-formed fields, written by WriteTo and read back, is the same paragraph;
   what follows it (a blank line and more text, or nothing) is left for the next call *)
Theorem C08_para_write_read fs : fs <> [] -> Forall wf_field fs -> NoDup (map fst fs) ->
  let p := {| order := map fst fs; values := map field_pair fs |} in
  (forall more, next empty_para [] (lines_of (write_para p) ++ [] :: more) = RPara p more) /\
  next empty_para [] (lines_of (write_para p)) = RPara p [].
Proof.
  intros NE W ND p.
  assert (WP : write_para p = List.concat (map field_text fs)).
  { unfold write_para. subst p. cbn [order values]. f_equal. rewrite map_map. apply map_ext_in. intros kv Hin.
    unfold field_text. f_equal.
    (* lookup of a key in the association list built from distinct keys *)
    clear -ND Hin. induction fs as [|a fs IH]; [contradiction|]. cbn [map lookup field_pair fst snd].
    inversion ND; subst. destruct Hin as [->|Hin].
    - destruct (str_eqb_spec (fst kv) (fst kv)); [reflexivity|congruence].
    - destruct (str_eqb_spec (fst a) (fst kv)) as [E|_]; [exfalso; apply H1; rewrite E; now apply in_map|]. now apply IH. }
  rewrite WP.
  assert (O : order p <> []) by (subst p; cbn; destruct fs; [congruence|discriminate]).
  split.
  - intros more. destruct (next_fields fs empty_para [] ([] :: more) W ND (fun _ _ => eq_refl)) as (last'&E).
    rewrite E. cbn [order values empty_para app]. fold p. cbn [next]. change (is_blank_line []) with true. cbv iota.
    destruct (order p) eqn:Op; [congruence|]. reflexivity.
  - rewrite <- (app_nil_r (lines_of _)).
    destruct (next_fields fs empty_para [] [] W ND (fun _ _ => eq_refl)) as (last'&E).
    rewrite E. cbn [order values empty_para app]. fold p. cbn [next]. destruct (order p) eqn:Op; [congruence|]. reflexivity.
Qed.
Print Assumptions C08_para_write_read.
