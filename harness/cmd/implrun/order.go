package main

import (
	"bufio"
	"strings"

	"pault.ag/go/debian/control"
)

func init() {
	ops["dscorder"] = func(a []string) string {
		arch := mkArch(a, 0)
		dscs := []control.DSC{}
		for _, text := range a[3:] {
			d, err := control.ParseDsc(bufio.NewReader(strings.NewReader(text)), "")
			if err != nil {
				return "parse-error"
			}
			dscs = append(dscs, *d)
		}
		out, err := control.OrderDSCForBuild(dscs, arch)
		if err != nil {
			if len(out) != 0 {
				return "err-with-value"
			}
			return "err"
		}
		names := []string{}
		for _, d := range out {
			names = append(names, hx(d.Source))
		}
		return "ok " + showList(names)
	}
}
