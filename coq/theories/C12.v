(* C12 - Checksums computed and verified by the library are the true digests.
   Property theorems only.  ORACLE: the four digest functions H : alg -> bytes -> digest (a hash.Hash is modelled
   as the bytes written so far, i.e. the append law of incremental hashing is built in); the tie obtains H from
   Python's hashlib, independently of Go's crypto packages.  Model: hashio.Hasher, NewHasherWriters (MultiWriter
   order, target last), NewHasherReaders (TeeReader), FileHash.Verifier, FileHashFromHasher, the parsing of
   checksum lines and the best-checksum selector. *)
From Coq Require Import List Ascii String Bool Arith ZArith Lia.
Require Import GS H12 H13 H14 HIST.
Import ListNotations.

Section C12.
  Variable H : alg -> str -> str.

  (* any chunking, any list of algorithms (in the order requested): bytes pass through unchanged, every hasher
     reports the true length and the digest of the whole stream under its own algorithm *)
  Theorem C12_any_chunking : forall names chunks st, run_writers names chunks = Some st ->
    w_target st = List.concat chunks /\
    Forall2 (fun n h => h_name h = n /\ get_hash n = Some (h_alg h) /\
                        h_size h = Z.of_nat (List.length (List.concat chunks)) /\
                        hasher_sum H h = H (h_alg h) (List.concat chunks)) names (w_hashers st).
  Proof. exact (C12_chunking H). Qed.

  Theorem C12_chunking_does_not_matter : forall names c1 c2 st1 st2, List.concat c1 = List.concat c2 ->
    run_writers names c1 = Some st1 -> run_writers names c2 = Some st2 ->
    w_target st1 = w_target st2 /\ map (hasher_sum H) (w_hashers st1) = map (hasher_sum H) (w_hashers st2)
    /\ map h_size (w_hashers st1) = map h_size (w_hashers st2).
  Proof. exact (C12_chunking_independent H). Qed.

  (* a verifier accepts a stream iff the recorded hash decodes to the stream's digest under the entry's own
     algorithm *)
  Theorem C12_verifier_iff : forall fh chunks, verify H fh chunks = Accept <->
    exists a, get_hash (f_alg fh) = Some a /\ hex_decode (f_hash fh) = Some (H a (List.concat chunks)).
  Proof. exact (C12_verifier H). Qed.

  (* entries parsed from a Checksums-<A> field carry algorithm A and are verified under it *)
  Theorem C12_parsed_entry_verifier : forall parse_int algorithm data fh chunks,
    unmarshal_hash parse_int algorithm data = Some fh ->
    (verify H fh chunks = Accept <->
     exists a, get_hash algorithm = Some a /\ hex_decode (f_hash fh) = Some (H a (List.concat chunks))).
  Proof. exact (C12_parsed_verifier H). Qed.

  (* the lines themselves: "<hash> <size> <name>" and "<name> <hash>" parse to exactly those columns - in the two-column
     form the first token is the name whatever it looks like (all hex digits, as long as a digest ...) *)
  Theorem C12_parsed_three_columns : forall parse_int algorithm h sz nm n, h <> [] -> sz <> [] -> nm <> [] ->
    forallb V3.nosp h = true -> forallb V3.nosp sz = true -> forallb V3.nosp nm = true -> parse_int sz = Some n ->
    unmarshal_hash parse_int algorithm (h ++ GS.sp :: sz ++ GS.sp :: nm) = Some {| f_alg := algorithm; f_hash := h; f_size := n; f_name := nm |}.
  Proof. exact H13.C12_parsed_line. Qed.
  Theorem C12_parsed_two_columns : forall parse_int algorithm nm h, nm <> [] -> h <> [] -> forallb V3.nosp nm = true -> forallb V3.nosp h = true ->
    unmarshal_hash parse_int algorithm (nm ++ GS.sp :: h) = Some {| f_alg := algorithm; f_hash := h; f_size := 0%Z; f_name := nm |}.
  Proof. exact H13.C12_parsed_two_columns. Qed.

  (* through the best-checksum selector *)
  Theorem C12_best_checksums : forall l256 l512 fh chunks,
    Forall (fun e => f_alg e = s "sha256") l256 -> Forall (fun e => f_alg e = s "sha512") l512 ->
    In fh (best_checksums l256 l512) ->
    exists a, (a = SHA256 /\ In fh l256 \/ a = SHA512 /\ In fh l512) /\
      (verify H fh chunks = Accept <-> hex_decode (f_hash fh) = Some (H a (List.concat chunks))).
  Proof. exact (C12_best H). Qed.

  (* entries built from a hasher are accepted for exactly the stream that was hashed *)
  Theorem C12_entry_from_hasher : forall hex_encode, (forall d, hex_decode (hex_encode d) = Some d) ->
    forall names chunks st h path, run_writers names chunks = Some st -> In h (w_hashers st) ->
    forall chunks', verify H (from_hasher H hex_encode path h) chunks' = Accept <->
                    H (h_alg h) (List.concat chunks') = H (h_alg h) (List.concat chunks).
  Proof. exact (C12_from_hasher H). Qed.

  (* a hasher read in mid-stream reports the length and digest of the bytes written so far; writing on gives the
     state of the whole stream *)
  Theorem C12_read_in_mid_stream : forall names c1 c2 st1, run_writers names c1 = Some st1 ->
    exists st2, run_writers names (c1 ++ c2) = Some st2 /\
      w_target st1 = List.concat c1 /\ w_target st2 = List.concat (c1 ++ c2) /\
      Forall2 (fun n h => h_size h = Z.of_nat (List.length (List.concat c1)) /\ hasher_sum H h = H (h_alg h) (List.concat c1)) names (w_hashers st1) /\
      Forall2 (fun n h => h_size h = Z.of_nat (List.length (List.concat (c1 ++ c2))) /\ hasher_sum H h = H (h_alg h) (List.concat (c1 ++ c2))) names (w_hashers st2).
  Proof. exact (HIST.C12_mid_stream H). Qed.
End C12.
(* the same with the hexadecimal law discharged for the lower-case encoder the library uses (fmt "%x") *)
Theorem C12_entry_from_hasher_lowercase_hex : forall H names chunks st h path, run_writers names chunks = Some st -> In h (w_hashers st) ->
  forall chunks', verify H (from_hasher H hex_encode path h) chunks' = Accept <->
                  H (h_alg h) (List.concat chunks') = H (h_alg h) (List.concat chunks).
Proof. exact C12_entry_from_hasher_hex. Qed.
Print Assumptions C12_any_chunking.
Print Assumptions C12_verifier_iff.
Print Assumptions C12_best_checksums.
Print Assumptions C12_entry_from_hasher.
Print Assumptions C12_entry_from_hasher_lowercase_hex.

(* the hashing writers behind a target that accepts only part of a Write (repair bcd84a3; reported by the r12 and the r13 hunt):
   for ANY history of writes and ANY accepted amounts every hasher's length and digest are those of the bytes the target holds *)
Require H15.
Theorem C12_writers_behind_short_writes : forall H names hs ws, new_hashers names = Some hs ->
  let st := fold_left H15.short_write ws {| w_hashers := hs; w_target := [] |} in
  w_target st = List.concat (map (fun pn => firstn (snd pn) (fst pn)) ws) /\
  Forall (fun h => hasher_sum H h = H (h_alg h) (w_target st) /\ h_size h = BinInt.Z.of_nat (List.length (w_target st))) (w_hashers st).
Proof. exact H15.short_writes_keep_hashers_and_target_equal. Qed.
Print Assumptions C12_writers_behind_short_writes.
