(* pault.ag/go/topsort sortNodes, as used by control.OrderDSCForBuild *)
From Coq Require Import List Bool Arith Lia Permutation.
Import ListNotations.

Definition node := nat.
Record graph := { nodes : list node; preds : node -> list node }.

Definition marked (ms : list node) (n : node) : bool := existsb (Nat.eqb n) ms.
Definition candidate (g : graph) (ms : list node) (n : node) : bool := forallb (marked ms) (preds g n).

(* sortSingleNodes: one pass over all nodes in insertion order; marks are visible within the pass *)
Fixpoint pass (g : graph) (todo : list node) (ms out : list node) : list node * list node :=
  match todo with
  | [] => (ms, out)
  | n :: r =>
      if marked ms n then pass g r ms out
      else if candidate g ms n then pass g r (n :: ms) (out ++ [n])
      else pass g r ms out
  end.

Definition has_unpruned (g : graph) (ms : list node) : bool := existsb (fun n => negb (marked ms n)) (nodes g).

Inductive sres := SOk (l : list node) | SCycle | SFuel.

Fixpoint sort_fuel (fuel : nat) (g : graph) (ms acc : list node) : sres :=
  match fuel with
  | O => SFuel
  | S f =>
      let '(ms', gen) := pass g (nodes g) ms [] in
      match gen with
      | [] => if has_unpruned g ms then SCycle else SOk acc
      | _ => sort_fuel f g ms' (acc ++ gen)
      end
  end.
Definition sort (g : graph) : sres := sort_fuel (S (List.length (nodes g))) g [] [].

(* ---------- specification ---------- *)
(* every predecessor of an element occurs strictly earlier *)
Definition ordered (g : graph) (l : list node) : Prop :=
  forall l1 n l2, l = l1 ++ n :: l2 -> forall p, In p (preds g n) -> In p l1.

Lemma marked_in ms n : marked ms n = true <-> In n ms.
Proof.
  unfold marked. rewrite existsb_exists. split.
  - intros (x&Hx&E). apply Nat.eqb_eq in E. now subst.
  - intros H. exists n. split; [exact H|apply Nat.eqb_refl].
Qed.

Lemma ordered_snoc g l n : ordered g l -> (forall p, In p (preds g n) -> In p l) -> ordered g (l ++ [n]).
Proof.
  intros Ho Hp l1 m l2 E p Hin.
  destruct l2 as [|x l2'] using rev_ind.
  - apply app_inj_tail in E as [-> ->]. now apply Hp.
  - clear IHl2'. rewrite app_comm_cons, app_assoc in E. apply app_inj_tail in E as [E ->].
    eapply Ho; eauto.
Qed.

Lemma NoDup_snoc {A} (a : A) l : ~ In a l -> NoDup l -> NoDup (l ++ [a]).
Proof. intros H1 H2. apply (NoDup_Add (Add_app a l [])). rewrite app_nil_r. split; auto. Qed.

(* invariant of a pass: ms is the set of acc ++ out, which is duplicate-free and ordered *)
Record inv (g : graph) (ms l : list node) : Prop := {
  i_same : forall n, In n ms <-> In n l;
  i_nodup : NoDup l;
  i_ord : ordered g l;
  i_sub : forall n, In n l -> In n (nodes g) }.

Lemma pass_inv g : forall todo ms acc out,
  (forall n, In n todo -> In n (nodes g)) -> inv g ms (acc ++ out) ->
  let '(ms', out') := pass g todo ms out in
  inv g ms' (acc ++ out') /\ (forall n, In n ms -> In n ms') /\ (exists ext, out' = out ++ ext).
Proof.
  induction todo as [|n r IH]; intros ms acc out Hsub I; cbn [pass].
  - split; [exact I|]. split; [auto|]. exists []. now rewrite app_nil_r.
  - assert (Hr : forall m, In m r -> In m (nodes g)) by (intros; apply Hsub; now right).
    destruct (marked ms n) eqn:M.
    + now apply IH.
    + destruct (candidate g ms n) eqn:C.
      * assert (I' : inv g (n :: ms) (acc ++ out ++ [n])).
        { destruct I as [S ND O SB]. rewrite app_assoc. constructor.
          - intros m. cbn. rewrite in_app_iff. cbn. rewrite S. tauto.
          - apply NoDup_snoc; [|exact ND]. intros Hn. apply S in Hn. apply marked_in in Hn. congruence.
          - apply ordered_snoc; [exact O|]. intros p Hp. apply S. apply marked_in.
            unfold candidate in C. rewrite forallb_forall in C. now apply C.
          - intros m Hm. apply in_app_iff in Hm as [Hm|[->|[]]]; [now apply SB|]. apply Hsub. now left. }
        specialize (IH (n :: ms) acc (out ++ [n]) Hr I').
        destruct (pass g r (n :: ms) (out ++ [n])) as [ms' out'].
        destruct IH as (A&B&(ext&E)). split; [exact A|]. split.
        -- intros m Hm. apply B. now right.
        -- exists (n :: ext). rewrite E. now rewrite <- app_assoc.
      * now apply IH.
Qed.

Lemma pass_inv0 g ms acc : inv g ms acc ->
  let '(ms', gen) := pass g (nodes g) ms [] in inv g ms' (acc ++ gen) /\ (forall n, In n ms -> In n ms').
Proof.
  intros I. pose proof (pass_inv g (nodes g) ms acc [] (fun n H => H)) as P.
  rewrite app_nil_r in P. specialize (P I). destruct (pass g (nodes g) ms []) as [ms' gen].
  destruct P as (A&B&_). auto.
Qed.

Lemma has_unpruned_false g ms : has_unpruned g ms = false -> forall n, In n (nodes g) -> In n ms.
Proof.
  unfold has_unpruned. intros H n Hn. apply marked_in.
  destruct (marked ms n) eqn:M; [reflexivity|]. exfalso.
  assert (E : existsb (fun n0 => negb (marked ms n0)) (nodes g) = true).
  { apply existsb_exists. exists n. split; [exact Hn|]. now rewrite M. }
  congruence.
Qed.

Lemma sort_fuel_sound g : forall fuel ms acc l, inv g ms acc -> sort_fuel fuel g ms acc = SOk l ->
  exists ms', inv g ms' l /\ forall n, In n (nodes g) -> In n l.
Proof.
  induction fuel as [|f IH]; intros ms acc l I H; [discriminate|]. cbn [sort_fuel] in H.
  pose proof (pass_inv0 g ms acc I) as P. destruct (pass g (nodes g) ms []) as [ms' gen].
  destruct P as (I'&Mono). destruct gen as [|x gen'].
  - destruct (has_unpruned g ms) eqn:U; [discriminate|]. inversion H; subst.
    exists ms. split; [exact I|]. intros n Hn. apply (i_same g ms l I). now apply (has_unpruned_false g ms U).
  - eapply IH; eauto.
Qed.

Lemma inv_init g : inv g [] [].
Proof. constructor; [tauto|constructor| |contradiction]. intros l1 n l2 E. destruct l1; discriminate. Qed.

Theorem sort_sound g l : NoDup (nodes g) -> sort g = SOk l -> Permutation l (nodes g) /\ ordered g l.
Proof.
  intros ND H. destruct (sort_fuel_sound g _ [] [] l (inv_init g) H) as (ms'&I&All).
  split; [|exact (i_ord g ms' l I)].
  apply NoDup_Permutation; [exact (i_nodup g ms' l I)|exact ND|].
  intros n. split; [apply (i_sub g ms' l I)|apply All].
Qed.

(* ---------- cycles ---------- *)
Definition wf_graph (g : graph) : Prop := forall n p, In n (nodes g) -> In p (preds g n) -> In p (nodes g).
Definition topological (g : graph) (t : list node) : Prop := ordered g t /\ forall n, In n (nodes g) -> In n t.

Lemma pass_len g : forall todo ms out, List.length out <= List.length (snd (pass g todo ms out)).
Proof.
  induction todo as [|n r IH]; intros ms out; cbn [pass]; [cbn; lia|].
  destruct (marked ms n); [apply IH|]. destruct (candidate g ms n); [|apply IH].
  specialize (IH (n :: ms) (out ++ [n])). rewrite app_length in IH. cbn in IH. lia.
Qed.

Lemma pass_nothing g : forall todo ms out, snd (pass g todo ms out) = out ->
  forall n, In n todo -> marked ms n = false -> candidate g ms n = false.
Proof.
  induction todo as [|m r IH]; intros ms out E n Hin Hm; [contradiction|]. cbn [pass] in E.
  destruct (marked ms m) eqn:M.
  - destruct Hin as [->|Hin]; [congruence|]. eapply IH; eauto.
  - destruct (candidate g ms m) eqn:C.
    + exfalso. pose proof (pass_len g r (m :: ms) (out ++ [m])) as L. rewrite E in L.
      rewrite app_length in L. cbn in L. lia.
    + destruct Hin as [->|Hin]; [exact C|]. eapply IH; eauto.
Qed.

(* the first element of t satisfying a decidable predicate *)
Lemma first_such (P : node -> bool) : forall t, (exists n, In n t /\ P n = true) ->
  exists t1 u t2, t = t1 ++ u :: t2 /\ P u = true /\ forall x, In x t1 -> P x = false.
Proof.
  induction t as [|a t IH]; intros (n&Hin&Hp); [contradiction|].
  destruct (P a) eqn:Pa.
  - exists [], a, t. repeat split; auto. contradiction.
  - destruct Hin as [->|Hin]; [congruence|]. destruct (IH (ex_intro _ n (conj Hin Hp))) as (t1&u&t2&E&Pu&F).
    exists (a :: t1), u, t2. subst. repeat split; auto. intros x [->|Hx]; auto.
Qed.

Lemma stuck_no_order g ms : wf_graph g ->
  has_unpruned g ms = true ->
  (forall n, In n (nodes g) -> marked ms n = false -> candidate g ms n = false) ->
  forall t, ~ topological g t.
Proof.
  intros WF U Stuck t [Ord All].
  set (P := fun n => existsb (Nat.eqb n) (nodes g) && negb (marked ms n)).
  assert (Ex : exists n, In n t /\ P n = true).
  { unfold has_unpruned in U. apply existsb_exists in U as (n&Hn&Hu). exists n. split; [now apply All|].
    unfold P. rewrite Hu, andb_true_r. apply existsb_exists. exists n. split; [exact Hn|apply Nat.eqb_refl]. }
  destruct (first_such P t Ex) as (t1&u&t2&E&Pu&F).
  unfold P in Pu. apply andb_true_iff in Pu as [Hu1 Hu2].
  assert (Hun : In u (nodes g)).
  { apply existsb_exists in Hu1 as (x&Hx&Ex2). apply Nat.eqb_eq in Ex2. now subst. }
  apply negb_true_iff in Hu2.
  specialize (Stuck u Hun Hu2). unfold candidate in Stuck.
  (* some predecessor p of u is unmarked *)
  assert (Hp : exists p, In p (preds g u) /\ marked ms p = false).
  { clear -Stuck. induction (preds g u) as [|p r IH]; cbn in Stuck; [discriminate|].
    destruct (marked ms p) eqn:M.
    - destruct (IH Stuck) as (q&Hq&Mq). exists q. split; [now right|exact Mq].
    - exists p. split; [now left|exact M]. }
  destruct Hp as (p&Hp&Mp).
  pose proof (Ord t1 u t2 E p Hp) as Hin1.
  specialize (F p Hin1). unfold P in F.
  assert (In p (nodes g)) by (eapply WF; eauto).
  assert (existsb (Nat.eqb p) (nodes g) = true) by (apply existsb_exists; exists p; split; [assumption|apply Nat.eqb_refl]).
  rewrite H0, Mp in F. discriminate.
Qed.

Lemma sort_fuel_cycle g : wf_graph g -> forall fuel ms acc, sort_fuel fuel g ms acc = SCycle -> forall t, ~ topological g t.
Proof.
  intros WF. induction fuel as [|f IH]; intros ms acc H; [discriminate|]. cbn [sort_fuel] in H.
  destruct (pass g (nodes g) ms []) as [ms' gen] eqn:P. destruct gen as [|x gen'].
  - destruct (has_unpruned g ms) eqn:U; [|discriminate].
    apply (stuck_no_order g ms WF U). intros n Hn Hm.
    apply (pass_nothing g (nodes g) ms []); [now rewrite P|exact Hn|exact Hm].
  - eapply IH; eauto.
Qed.

Theorem sort_cycle g : wf_graph g -> sort g = SCycle -> forall t, ~ topological g t.
Proof. intros WF H. exact (sort_fuel_cycle g WF _ [] [] H). Qed.

(* an order is found whenever one exists (given enough fuel, shown next) *)
Corollary sort_complete g t : wf_graph g -> topological g t -> sort g <> SCycle.
Proof. intros WF T H. exact (sort_cycle g WF H t T). Qed.

(* ---------- termination: |nodes|+1 passes are enough ---------- *)
Lemma sort_fuel_enough g : forall fuel ms acc, inv g ms acc ->
  List.length (nodes g) - List.length acc < fuel -> NoDup (nodes g) -> sort_fuel fuel g ms acc <> SFuel.
Proof.
  induction fuel as [|f IH]; intros ms acc I Hf ND; [lia|]. cbn [sort_fuel].
  pose proof (pass_inv0 g ms acc I) as P. destruct (pass g (nodes g) ms []) as [ms' gen].
  destruct P as (I'&_). destruct gen as [|x gen'].
  - destruct (has_unpruned g ms); discriminate.
  - apply IH; [exact I'| |exact ND].
    pose proof (NoDup_incl_length (i_nodup g _ _ I') (i_sub g _ _ I')) as L.
    rewrite app_length in *. cbn [List.length] in *. lia.
Qed.

Theorem sort_terminates g : NoDup (nodes g) -> sort g <> SFuel.
Proof. intros ND. apply sort_fuel_enough; [apply inv_init|cbn; lia|exact ND]. Qed.

Print Assumptions sort_sound.
Print Assumptions sort_cycle.
Print Assumptions sort_terminates.
