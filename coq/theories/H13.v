(* C12, the parsed-entry half: FileHash.unmarshalControl, BestChecksums.Checksums, then Verifier *)
From Coq Require Import List Ascii String Bool Arith NArith ZArith Lia.
Require Import GS V3 H12.
Import ListNotations.

(* strings.Fields on ASCII blanks *)
Fixpoint fields_aux (cur : str) (x : str) : list str :=
  match x with
  | [] => match cur with [] => [] | _ => [rev cur] end
  | c :: r => if is_space c then (match cur with [] => fields_aux [] r | _ => rev cur :: fields_aux [] r end)
              else fields_aux (c :: cur) r
  end.
Definition fields (x : str) : list str := fields_aux [] x.

Lemma fields_word : forall w cur rest, forallb nosp w = true -> fields_aux cur (w ++ rest) = fields_aux (rev w ++ cur) rest.
Proof.
  induction w as [|c w IH]; intros cur rest H; [reflexivity|]. cbn [forallb] in H. apply andb_true_iff in H as [Hc Hw].
  cbn [app fields_aux]. unfold nosp in Hc. apply negb_true_iff in Hc. rewrite Hc. rewrite (IH (c :: cur) rest Hw).
  cbn [rev]. now rewrite <- app_assoc.
Qed.

Lemma fields3 a b c : a <> [] -> b <> [] -> c <> [] -> forallb nosp a = true -> forallb nosp b = true -> forallb nosp c = true ->
  fields (a ++ sp :: b ++ sp :: c) = [a; b; c].
Proof.
  intros Na Nb Nc Ha Hb Hc. unfold fields.
  assert (R : forall w : str, w <> [] -> rev w ++ [] <> []) by (intros w Hw E; rewrite app_nil_r in E; apply Hw; now rewrite <- (rev_involutive w), E).
  rewrite (fields_word a [] _ Ha). cbn [fields_aux]. change (is_space sp) with true. cbv iota.
  destruct (rev a ++ []) as [|x xs] eqn:Ea; [exfalso; now apply (R a Na)|]. rewrite <- Ea, app_nil_r, rev_involutive.
  rewrite (fields_word b [] _ Hb). cbn [fields_aux]. change (is_space sp) with true. cbv iota.
  destruct (rev b ++ []) as [|y ys] eqn:Eb; [exfalso; now apply (R b Nb)|]. rewrite <- Eb, app_nil_r, rev_involutive.
  rewrite <- (app_nil_r c) at 1. rewrite (fields_word c [] [] Hc). cbn [fields_aux].
  destruct (rev c ++ []) as [|z zs] eqn:Ec; [exfalso; now apply (R c Nc)|]. rewrite <- Ec, app_nil_r, rev_involutive. reflexivity.
Qed.

Lemma fields2 a b : a <> [] -> b <> [] -> forallb nosp a = true -> forallb nosp b = true -> fields (a ++ sp :: b) = [a; b].
Proof.
  intros Na Nb Ha Hb. unfold fields.
  assert (R : forall w : str, w <> [] -> rev w ++ [] <> []) by (intros w Hw E; rewrite app_nil_r in E; apply Hw; now rewrite <- (rev_involutive w), E).
  rewrite (fields_word a [] _ Ha). cbn [fields_aux]. change (is_space sp) with true. cbv iota.
  destruct (rev a ++ []) as [|x xs] eqn:Ea; [exfalso; now apply (R a Na)|]. rewrite <- Ea, app_nil_r, rev_involutive.
  rewrite <- (app_nil_r b) at 1. rewrite (fields_word b [] [] Hb). cbn [fields_aux].
  destruct (rev b ++ []) as [|z zs] eqn:Eb; [exfalso; now apply (R b Nb)|]. rewrite <- Eb, app_nil_r, rev_involutive. reflexivity.
Qed.

Section Parsed.
  Variable H : alg -> str -> str.                 (* ORACLE: the digests, as in H12 *)
  Variable parse_int : str -> option Z.           (* ORACLE: strconv.ParseInt(x, 10, 64) *)

  (* FileHash.unmarshalControl(algorithm, data): three fields = hash size name, two = name hash *)
  Definition unmarshal_hash (algorithm : str) (data : str) : option filehash :=
    match fields data with
    | [h; sz; nm] => option_map (fun n => {| f_alg := algorithm; f_hash := h; f_size := n; f_name := nm |}) (parse_int sz)
    | [nm; h] => Some {| f_alg := algorithm; f_hash := h; f_size := 0; f_name := nm |}
    | _ => None
    end.

  Lemma unmarshal_alg algorithm data fh : unmarshal_hash algorithm data = Some fh -> f_alg fh = algorithm.
  Proof.
    unfold unmarshal_hash. destruct (fields data) as [|a [|b [|c [|d r]]]]; try discriminate.
    - intros E. inversion E. reflexivity.
    - destruct (parse_int b); [|discriminate]. intros E. inversion E. reflexivity.
  Qed.

  Theorem C12_parsed_line algorithm h sz nm n : h <> [] -> sz <> [] -> nm <> [] ->
    forallb nosp h = true -> forallb nosp sz = true -> forallb nosp nm = true -> parse_int sz = Some n ->
    unmarshal_hash algorithm (h ++ sp :: sz ++ sp :: nm) = Some {| f_alg := algorithm; f_hash := h; f_size := n; f_name := nm |}.
  Proof. intros Nh Ns Nn Hh Hs Hn P. unfold unmarshal_hash. rewrite fields3 by assumption. now rewrite P. Qed.

  (* the two-column form "<name> <hash>": the first token is the NAME and the second the hash - whatever the name looks
     like (a by-hash style name is all hex digits and as long as a digest) *)
  Theorem C12_parsed_two_columns algorithm nm h : nm <> [] -> h <> [] -> forallb nosp nm = true -> forallb nosp h = true ->
    unmarshal_hash algorithm (nm ++ sp :: h) = Some {| f_alg := algorithm; f_hash := h; f_size := 0; f_name := nm |}.
  Proof. intros Nn Nh Hn Hh. unfold unmarshal_hash. now rewrite fields2. Qed.

  (* an entry parsed from a field of algorithm A is accepted exactly for streams whose A-digest is the recorded hash *)
  Theorem C12_parsed_verifier algorithm data fh chunks : unmarshal_hash algorithm data = Some fh ->
    (verify H fh chunks = Accept <->
     exists a, get_hash algorithm = Some a /\ hex_decode (f_hash fh) = Some (H a (List.concat chunks))).
  Proof. intros U. rewrite C12_verifier. now rewrite (unmarshal_alg _ _ _ U). Qed.

  (* BestChecksums.Checksums(): the SHA-256 list if it has entries, else the SHA-512 list *)
  Definition best_checksums (l256 l512 : list filehash) : list filehash :=
    match l256 with [] => l512 | _ => l256 end.
  Theorem C12_best l256 l512 fh chunks :
    Forall (fun e => f_alg e = s "sha256") l256 -> Forall (fun e => f_alg e = s "sha512") l512 ->
    In fh (best_checksums l256 l512) ->
    exists a, (a = SHA256 /\ In fh l256 \/ a = SHA512 /\ In fh l512) /\
      (verify H fh chunks = Accept <-> hex_decode (f_hash fh) = Some (H a (List.concat chunks))).
  Proof.
    intros F1 F2 Hin. rewrite Forall_forall in F1, F2.
    assert (K : In fh l256 \/ In fh l512) by (unfold best_checksums in Hin; destruct l256; auto).
    destruct K as [K|K].
    - exists SHA256. split; [auto|]. rewrite C12_verifier, (F1 fh K). split.
      + intros (a&E1&E2). vm_compute in E1. inversion E1; subst. exact E2.
      + intros E. exists SHA256. split; [reflexivity|exact E].
    - exists SHA512. split; [auto|]. rewrite C12_verifier, (F2 fh K). split.
      + intros (a&E1&E2). vm_compute in E1. inversion E1; subst. exact E2.
      + intros E. exists SHA512. split; [reflexivity|exact E].
  Qed.
End Parsed.
Print Assumptions C12_parsed_verifier.
Print Assumptions C12_best.
