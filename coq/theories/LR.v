(* The line reader underneath the deb822 reader and the changelog parser (bufio.Reader.ReadString('\n') over any
   io.Reader): an INCREMENTAL splitter that is fed the source's chunks - whatever sizes the source chooses to deliver -
   and keeps the unfinished line between chunks.  Theorem: for every chunking, the lines it produces are
   GS.lines_of of the concatenation, the list the reader / parser models are defined on.  Hence what is read does not
   depend on how the bytes are chunked (one byte per Read, data together with EOF, a 4096-byte buffer fill ending
   anywhere): the C07 / C17 statements hold for every source, not only for the in-memory one. *)
From Coq Require Import List Ascii String Bool Arith Lia.
Require Import GS R2 CL.
Import ListNotations.

(* one chunk: completed lines and the new unfinished line (kept reversed, as the accumulator of split_on) *)
Fixpoint feed (cur : str) (chunk : str) : list str * str :=
  match chunk with
  | [] => ([], cur)
  | c :: r => if ceq c nl then let '(ls, cur') := feed [] r in (rev cur :: ls, cur')
              else feed (c :: cur) r
  end.
(* all chunks, then end of input: an unfinished line is a last line without newline *)
Fixpoint feed_all (cur : str) (chunks : list str) : list str :=
  match chunks with
  | [] => match cur with [] => [] | _ => [rev cur] end
  | ch :: rest => let '(ls, cur') := feed cur ch in ls ++ feed_all cur' rest
  end.

(* the same in one pass over the whole text *)
Fixpoint lf (cur : str) (x : str) : list str :=
  match x with
  | [] => match cur with [] => [] | _ => [rev cur] end
  | c :: r => if ceq c nl then rev cur :: lf [] r else lf (c :: cur) r
  end.

Lemma feed_lf : forall ch cur rest_text, 
  let '(ls, cur') := feed cur ch in ls ++ lf cur' rest_text = lf cur (ch ++ rest_text).
Proof.
  induction ch as [|c r IH]; intros cur rest_text; cbn [feed app lf]; [reflexivity|].
  destruct (ceq c nl).
  - specialize (IH [] rest_text). destruct (feed [] r) as [ls cur']. cbn [app]. now rewrite IH.
  - apply IH.
Qed.
Lemma feed_all_lf : forall chunks cur, feed_all cur chunks = lf cur (List.concat chunks).
Proof.
  induction chunks as [|ch rest IH]; intros cur; cbn [feed_all List.concat]; [reflexivity|].
  pose proof (feed_lf ch cur (List.concat rest)) as F. destruct (feed cur ch) as [ls cur']. now rewrite IH.
Qed.

(* lines_of = split, then drop the empty piece after a final newline *)
Definition strip_last_empty (l : list str) : list str := match rev l with [] :: r => rev r | _ => l end.
Lemma split_on_nonempty d cur x : split_on d cur x <> [].
Proof. revert cur. induction x as [|c r IH]; intros cur; cbn; [discriminate|]. destruct (ceq c d); [discriminate|apply IH]. Qed.
Lemma strip_cons a L : L <> [] -> strip_last_empty (a :: L) = a :: strip_last_empty L.
Proof.
  intros NE. unfold strip_last_empty. cbn [rev]. destruct (rev L) as [|y ys] eqn:E.
  - exfalso. apply NE. apply (f_equal (@rev str)) in E. now rewrite rev_involutive in E.
  - cbn [app]. destruct y as [|y0 yr]; [|reflexivity]. rewrite rev_app_distr. reflexivity.
Qed.
Lemma lf_split : forall x cur, lf cur x = strip_last_empty (split_on nl cur x).
Proof.
  induction x as [|c r IH]; intros cur; cbn [lf split_on].
  - unfold strip_last_empty. cbn [rev app]. destruct cur as [|c0 cr]; [reflexivity|].
    destruct (rev (c0 :: cr)) eqn:E; [|reflexivity]. exfalso. apply (f_equal (@rev ascii)) in E. rewrite rev_involutive in E. discriminate.
  - destruct (ceq c nl).
    + rewrite strip_cons by apply split_on_nonempty. now rewrite IH.
    + apply IH.
Qed.
Lemma lines_of_strip x : lines_of x = strip_last_empty (split nl x).
Proof. destruct x; reflexivity. Qed.

Theorem feed_all_is_lines_of chunks : feed_all [] chunks = lines_of (List.concat chunks).
Proof. now rewrite feed_all_lf, lf_split, lines_of_strip. Qed.

(* two chunkings of the same text give the same lines *)
Corollary chunking_irrelevant c1 c2 : List.concat c1 = List.concat c2 -> feed_all [] c1 = feed_all [] c2.
Proof. intros E. now rewrite !feed_all_is_lines_of, E. Qed.

(* the deb822 reader and the changelog parser on a chunked source *)
Definition read_all_chunked (chunks : list str) : option (list R2.para) :=
  let ls := feed_all [] chunks in R2.all_fuel (S (List.length ls)) ls.
Theorem read_all_any_source chunks : read_all_chunked chunks = R2.read_all (List.concat chunks).
Proof. unfold read_all_chunked, R2.read_all. now rewrite feed_all_is_lines_of. Qed.

Section ChangelogSource.
  Variables V T : Type.
  Variable parse_version : str -> option V.
  Variable parse_date : str -> option T.
  Definition changelog_chunked (chunks : list str) : option (list (CL.entry V T)) :=
    let ls := feed_all [] chunks in CL.parse_fuel V T parse_version parse_date (S (List.length ls)) ls.
  Theorem changelog_any_source chunks :
    changelog_chunked chunks = CL.parse V T parse_version parse_date (List.concat chunks).
  Proof. unfold changelog_chunked, CL.parse. now rewrite feed_all_is_lines_of. Qed.
End ChangelogSource.

Example chunked_ex :
  feed_all [] [s "A: 1"; [cr]; [nl]; s " x" ++ [nl] ++ s "B"; s ": 2"] = [s "A: 1" ++ [cr]; s " x"; s "B: 2"] /\
  feed_all [] [s "A: 1" ++ [cr; nl] ++ s " x" ++ [nl] ++ s "B: 2"] = [s "A: 1" ++ [cr]; s " x"; s "B: 2"] /\
  feed_all [] [s "a" ++ [nl]; []; [nl]] = [s "a"; []].
Proof. vm_compute. repeat split. Qed.
Print Assumptions read_all_any_source.
