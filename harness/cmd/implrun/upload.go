package main

import (
	"crypto/md5"
	"crypto/sha1"
	"crypto/sha256"
	"fmt"
	"io/ioutil"
	"os"
	"path"
	"path/filepath"
	"sort"
	"strings"
	"syscall"
	"unsafe"

	"pault.ag/go/debian/control"
)

// upload kind op ctlname ctlstate n (name state content)* : runs DSC/Changes Copy, Move or Remove on a real
// directory tree under /var/tmp and reports the error flag, the handle's Filename, the final content of the
// source, destination and outside directories, and the order in which names appeared in / vanished from the
// watched directories (inotify).
//
// states: ok | missing | dir (the source is a directory) | dirfull (a non-empty directory) |
//
//	blocked (the destination name is occupied by a non-empty directory) |
//	occupied (the destination already holds a longer regular file of that name)
//	cksum (the name is listed ONLY in the Checksums-Sha1 / Checksums-Sha256 sections, not in Files)
//
// Every other file is listed in Files and in both checksum sections, as in a real .dsc / .changes.
func init() {
	// the path functions the library relies on (Go standard library): path.Clean, path.Join, filepath.Base / Dir / Ext
	ops["pclean"] = func(a []string) string { return hx(path.Clean(arg(a, 0))) }
	ops["pjoin"] = func(a []string) string { return hx(path.Join(arg(a, 0), arg(a, 1))) }
	ops["pbase"] = func(a []string) string { return hx(filepath.Base(arg(a, 0))) }
	ops["pdir"] = func(a []string) string { return hx(filepath.Dir(arg(a, 0))) }
	ops["pext"] = func(a []string) string { return hx(filepath.Ext(arg(a, 0))) }
	ops["upload"] = func(a []string) string {
		kind, op, ctlname, ctlstate := arg(a, 0), arg(a, 1), arg(a, 2), arg(a, 3)
		root, err := ioutil.TempDir("/var/tmp", "verif-upload-")
		if err != nil {
			return "harness-error"
		}
		defer os.RemoveAll(root)
		src, dst, out := filepath.Join(root, "S"), filepath.Join(root, "D"), filepath.Join(root, "outside")
		dst2 := filepath.Join(root, "D2")
		// "copy+remove", "move+remove", "copy+move", ...: a second operation through the SAME handle, into D2
		op2 := ""
		if k := strings.Index(op, "+"); k >= 0 {
			op, op2 = op[:k], op[k+1:]
		}
		// "copy~copy", "copy~move": the first operation fails half-way (a file is missing / a name is blocked), the cause is
		// repaired, and the operation is tried AGAIN through the same handle into the SAME destination
		retry := false
		dstSecond := dst2
		if k := strings.Index(op, "~"); k >= 0 {
			op, op2 = op[:k], op[k+1:]
			retry = true
			dstSecond = dst
		}
		for _, d := range []string{src, dst, dst2, out, filepath.Join(src, "sub")} {
			os.MkdirAll(d, 0755)
		}
		ioutil.WriteFile(filepath.Join(out, "canary"), []byte("canary"), 0644)
		ioutil.WriteFile(filepath.Join(root, "rootcanary"), []byte("canary"), 0644)
		ioutil.WriteFile(filepath.Join(src, "sub", "inner"), []byte("inner"), 0644)
		place := func(name, state, content string) {
			p := filepath.Join(src, name)
			switch state {
			case "ok":
				ioutil.WriteFile(p, []byte(content), 0644)
			case "dir":
				os.MkdirAll(p, 0755)
			case "dirfull":
				os.MkdirAll(p, 0755)
				ioutil.WriteFile(filepath.Join(p, "x"), []byte("x"), 0644)
			case "blocked":
				ioutil.WriteFile(p, []byte(content), 0644)
				os.MkdirAll(filepath.Join(dst, name), 0755)
				ioutil.WriteFile(filepath.Join(dst, name, "x"), []byte("x"), 0644)
			case "linkrel":
				// the referenced file is a symbolic link with a RELATIVE target beside it (uscan-style orig tarball links)
				ioutil.WriteFile(filepath.Join(src, "real-"+name), []byte(content), 0644)
				os.Symlink("real-"+name, p)
			case "occupied":
				// the destination already holds a LONGER regular file of that name: it must be replaced, not patched
				ioutil.WriteFile(p, []byte(content), 0644)
				ioutil.WriteFile(filepath.Join(dst, name), []byte(content+strings.Repeat("Z", 250)), 0600)
			}
		}
		var listing, sha1s, sha256s strings.Builder
		for i := 5; i+2 < len(a); i += 3 {
			name, state, content := a[i], a[i+1], a[i+2]
			fmt.Fprintf(&sha1s, " %x %d %s\n", sha1.Sum([]byte(content)), len(content), name)
			fmt.Fprintf(&sha256s, " %x %d %s\n", sha256.Sum256([]byte(content)), len(content), name)
			if state == "cksum" {
				continue
			}
			if !strings.ContainsAny(name, "/") && name != "" && name != "." && name != ".." {
				place(name, state, content)
			}
			sum := fmt.Sprintf("%x", md5.Sum([]byte(content)))
			if kind == "dsc" {
				fmt.Fprintf(&listing, " %s %d %s\n", sum, len(content), name)
			} else {
				fmt.Fprintf(&listing, " %s %d misc optional %s\n", sum, len(content), name)
			}
		}
		text := "Format: 1.0\nSource: x\nVersion: 1.0-1\nMaintainer: A B <a@b.c>\nFiles:\n" + listing.String()
		if listing.Len() == 0 {
			text = "Format: 1.0\nSource: x\nVersion: 1.0-1\nMaintainer: A B <a@b.c>\n"
		}
		if sha1s.Len() > 0 {
			text += "Checksums-Sha1:\n" + sha1s.String() + "Checksums-Sha256:\n" + sha256s.String()
		}
		ctlpath := filepath.Join(src, ctlname)
		if ctlstate == "symlink" {
			// the control file in S is a symbolic link to a file that lives elsewhere (outside/), next to decoys carrying the
			// names of the referenced files: "the control file's own directory" is S, where the handle was opened
			ioutil.WriteFile(filepath.Join(out, ctlname), []byte(text), 0644)
			for i := 5; i+2 < len(a); i += 3 {
				if a[i+1] != "cksum" && !strings.ContainsAny(a[i], "/") && a[i] != "" && a[i] != "." && a[i] != ".." {
					ioutil.WriteFile(filepath.Join(out, a[i]), []byte("decoy"), 0644)
				}
			}
			os.Symlink(filepath.Join(out, ctlname), ctlpath)
		} else {
			ioutil.WriteFile(ctlpath, []byte(text), 0644)
		}
		var doOp func() error
		var doOp2 func() error
		var filename func() string
		if kind == "dsc" {
			d, err := control.ParseDscFile(ctlpath)
			if err != nil {
				return "parse-error"
			}
			filename = func() string { return d.Filename }
			switch op {
			case "copy":
				doOp = func() error { return d.Copy(dst) }
			case "move":
				doOp = func() error { return d.Move(dst) }
			default:
				doOp = func() error { return d.Remove() }
			}
			switch op2 {
			case "copy":
				doOp2 = func() error { return d.Copy(dstSecond) }
			case "move":
				doOp2 = func() error { return d.Move(dstSecond) }
			case "remove":
				doOp2 = func() error { return d.Remove() }
			}
		} else {
			c, err := control.ParseChangesFile(ctlpath)
			if err != nil {
				return "parse-error"
			}
			filename = func() string { return c.Filename }
			switch op {
			case "copy":
				doOp = func() error { return c.Copy(dst) }
			case "move":
				doOp = func() error { return c.Move(dst) }
			default:
				doOp = func() error { return c.Remove() }
			}
			switch op2 {
			case "copy":
				doOp2 = func() error { return c.Copy(dstSecond) }
			case "move":
				doOp2 = func() error { return c.Move(dstSecond) }
			case "remove":
				doOp2 = func() error { return c.Remove() }
			}
		}
		// the state of the control file itself, applied after parsing
		switch ctlstate {
		case "missing":
			os.Remove(ctlpath)
		case "dir":
			os.Remove(ctlpath)
			os.MkdirAll(ctlpath, 0755)
		case "dirfull":
			os.Remove(ctlpath)
			os.MkdirAll(ctlpath, 0755)
			ioutil.WriteFile(filepath.Join(ctlpath, "x"), []byte("x"), 0644)
		case "blocked":
			os.MkdirAll(filepath.Join(dst, ctlname), 0755)
			ioutil.WriteFile(filepath.Join(dst, ctlname, "x"), []byte("x"), 0644)
		case "occupied":
			ioutil.WriteFile(filepath.Join(dst, ctlname), []byte(text+strings.Repeat("Z", 250)), 0600)
		}
		// watch both directories
		fd, err := syscall.InotifyInit()
		if err != nil {
			return "harness-error"
		}
		defer syscall.Close(fd)
		mask := uint32(syscall.IN_CREATE | syscall.IN_MOVED_TO | syscall.IN_MOVED_FROM | syscall.IN_DELETE | syscall.IN_CLOSE_WRITE)
		wS, _ := syscall.InotifyAddWatch(fd, src, mask)
		wD, _ := syscall.InotifyAddWatch(fd, dst, mask)
		wD2, _ := syscall.InotifyAddWatch(fd, dst2, mask)
		res := "ok"
		if retry {
			if e := doOp(); e != nil {
				res = "err"
			}
			// repair what made it fail
			for i := 5; i+2 < len(a); i += 3 {
				switch a[i+1] {
				case "missing":
					ioutil.WriteFile(filepath.Join(src, a[i]), []byte(a[i+2]), 0644)
				case "blocked":
					os.RemoveAll(filepath.Join(dst, a[i]))
				}
			}
			if e := doOp2(); e != nil {
				res += "~err"
			} else {
				res += "~ok"
			}
		} else if e := doOp(); e != nil {
			res = "err"
		} else if doOp2 != nil {
			if e := doOp2(); e != nil {
				res = "ok+err"
			} else {
				res = "ok+ok"
			}
		}
		fn := strings.TrimPrefix(filename(), root+"/")
		// drain the events
		syscall.SetNonblock(fd, true)
		events := []string{}
		buf := make([]byte, 1<<16)
		for {
			n, err := syscall.Read(fd, buf)
			if n <= 0 || err != nil {
				break
			}
			for off := 0; off+syscall.SizeofInotifyEvent <= n; {
				ev := (*syscall.InotifyEvent)(unsafe.Pointer(&buf[off]))
				name := strings.TrimRight(string(buf[off+syscall.SizeofInotifyEvent:off+syscall.SizeofInotifyEvent+int(ev.Len)]), "\x00")
				dir := "S"
				if int(ev.Wd) == wD {
					dir = "D"
				} else if int(ev.Wd) == wD2 {
					dir = "D2"
				} else if int(ev.Wd) != wS {
					dir = "?"
				}
				tag := ""
				switch {
				case ev.Mask&syscall.IN_CREATE != 0:
					tag = "c"
				case ev.Mask&syscall.IN_MOVED_TO != 0:
					tag = "mt"
				case ev.Mask&syscall.IN_MOVED_FROM != 0:
					tag = "mf"
				case ev.Mask&syscall.IN_DELETE != 0:
					tag = "d"
				case ev.Mask&syscall.IN_CLOSE_WRITE != 0:
					tag = "w"
				}
				if tag != "" {
					events = append(events, tag+":"+hx(dir)+"/"+hx(name))
				}
				off += syscall.SizeofInotifyEvent + int(ev.Len)
			}
		}
		// final state
		entries := []string{}
		for _, d := range [][2]string{{"S", src}, {"D", dst}, {"D2", dst2}, {"outside", out}, {"root", root}} {
			fis, _ := ioutil.ReadDir(d[1])
			for _, fi := range fis {
				if d[0] == "root" && fi.IsDir() {
					continue
				}
				val := "<dir>"
				if !fi.IsDir() {
					b, _ := ioutil.ReadFile(filepath.Join(d[1], fi.Name()))
					val = string(b)
				} else {
					sub, _ := ioutil.ReadDir(filepath.Join(d[1], fi.Name()))
					if len(sub) > 0 {
						val = "<dirfull>"
					}
				}
				entries = append(entries, "( "+hx(d[0]+"/"+fi.Name())+" "+hx(val)+" )")
			}
		}
		sort.Strings(entries)
		return res + " " + hx(fn) + " " + showList(entries) + " " + showList(events) + " " + hx(text)
	}
	// uploadself kind op variant (name content)*: the destination IS (or leads back to) the upload's own directory -
	// variant "same": Copy / Move into the directory the control file lives in; "symlink": into a symbolic link to that
	// directory; "hardlinks": into a directory that already holds hard links to the upload's files (a mirror made with
	// cp -l).  Reports the error flag, the handle's Filename and every regular file of S and D with its content.
	ops["uploadself"] = func(a []string) string {
		kind, op, variant := arg(a, 0), arg(a, 1), arg(a, 2)
		root, err := ioutil.TempDir("/var/tmp", "verif-uploadself-")
		if err != nil {
			return "harness-error"
		}
		defer os.RemoveAll(root)
		src, dst := filepath.Join(root, "S"), filepath.Join(root, "D")
		os.MkdirAll(src, 0755)
		var listing strings.Builder
		names := []string{}
		for i := 3; i+1 < len(a); i += 2 {
			name, content := a[i], a[i+1]
			ioutil.WriteFile(filepath.Join(src, name), []byte(content), 0644)
			names = append(names, name)
			sum := fmt.Sprintf("%x", md5.Sum([]byte(content)))
			if kind == "dsc" {
				fmt.Fprintf(&listing, " %s %d %s\n", sum, len(content), name)
			} else {
				fmt.Fprintf(&listing, " %s %d misc optional %s\n", sum, len(content), name)
			}
		}
		ctlname := "x_1.0-1." + kind
		text := "Format: 1.0\nSource: x\nVersion: 1.0-1\nMaintainer: A B <a@b.c>\nFiles:\n" + listing.String()
		ioutil.WriteFile(filepath.Join(src, ctlname), []byte(text), 0644)
		names = append(names, ctlname)
		dest := src
		switch variant {
		case "symlink":
			dest = filepath.Join(root, "L")
			os.Symlink(src, dest)
		case "hardlinks":
			dest = dst
			os.MkdirAll(dst, 0755)
			for _, n := range names {
				os.Link(filepath.Join(src, n), filepath.Join(dst, n))
			}
		case "destlink":
			// the destination already holds a symbolic link named like the first listed file, pointing at a file OUTSIDE
			// the two directories
			dest = dst
			os.MkdirAll(dst, 0755)
			os.MkdirAll(filepath.Join(root, "outside"), 0755)
			ioutil.WriteFile(filepath.Join(root, "outside", "precious"), []byte("precious"), 0644)
			os.Symlink("../outside/precious", filepath.Join(dst, names[0]))
		}
		var run func() error
		var filename func() string
		if kind == "dsc" {
			d, err := control.ParseDscFile(filepath.Join(src, ctlname))
			if err != nil {
				return "parse-error"
			}
			filename = func() string { return d.Filename }
			run = func() error { return d.Copy(dest) }
			if op == "move" {
				run = func() error { return d.Move(dest) }
			}
		} else {
			c, err := control.ParseChangesFile(filepath.Join(src, ctlname))
			if err != nil {
				return "parse-error"
			}
			filename = func() string { return c.Filename }
			run = func() error { return c.Copy(dest) }
			if op == "move" {
				run = func() error { return c.Move(dest) }
			}
		}
		res := "ok"
		if e := run(); e != nil {
			res = "err"
		}
		entries := []string{}
		for _, d := range [][2]string{{"S", src}, {"D", dst}, {"outside", filepath.Join(root, "outside")}} {
			fis, _ := ioutil.ReadDir(d[1])
			for _, fi := range fis {
				b, _ := ioutil.ReadFile(filepath.Join(d[1], fi.Name()))
				entries = append(entries, "( "+hx(d[0]+"/"+fi.Name())+" "+hx(string(b))+" )")
			}
		}
		sort.Strings(entries)
		held := "unreadable"
		if b, err := ioutil.ReadFile(filename()); err == nil {
			held = hx(string(b))
		}
		return res + " " + hx(strings.TrimPrefix(filename(), root+"/")) + " " + held + " " + showList(entries) + " " + hx(text)
	}

}
