(* C19 glue: control.OrderDSCForBuild on top of the topsort model *)
From Coq Require Import List Ascii String Bool Arith Lia Permutation.
Require Import GS TS.
Import ListNotations.

(* what OrderDSCForBuild reads from a parsed .dsc: the binaries it builds and the names picked from its three
   build-dependency fields for the build architecture (GetPossibilities, C06_select), in field order *)
Record src := { binaries : list str; picked : list str }.
Definition no_src : src := {| binaries := []; picked := [] |}.
Definition builds (b : str) (x : src) : bool := existsb (str_eqb b) (binaries x).

(* sourceMapping[binary] = every source that lists the binary, in input order (repair 0173c55 of the r13 finding: the map used
   to keep the LAST such source only, so a source could come out before another builder of a binary it build-depends on) *)
Section Order.
  Variable srcs : list src.           (* sources in input order; a source is identified by its position (names are distinct) *)
  Definition nth_src (i : nat) : src := nth i srcs no_src.
  Definition builders (b : str) : list nat := filter (fun t => builds b (nth_src t)) (seq 0 (List.length srcs)).
  Definition edges_into (i : nat) : list nat := flat_map builders (picked (nth_src i)).
  Definition build_graph : graph := {| nodes := seq 0 (List.length srcs); preds := edges_into |}.
  Definition order_dscs : sres := sort build_graph.

  (* the builders of a binary are exactly the sources of the input whose Binary field lists it *)
  Lemma builders_spec b t : In t (builders b) <-> t < List.length srcs /\ builds b (nth_src t) = true.
  Proof.
    unfold builders. rewrite filter_In, in_seq. split; [intros [A B]; split; [lia|exact B]|intros [A B]; split; [lia|exact B]].
  Qed.
  Lemma edges_spec i t : In t (edges_into i) <-> exists b, In b (picked (nth_src i)) /\ In t (builders b).
  Proof. unfold edges_into. rewrite in_flat_map. reflexivity. Qed.

  (* C19: the order is a permutation of the input, and every source comes after EVERY source that builds a binary it
     picked from its build-dependency fields *)
  Theorem C19_order l : order_dscs = SOk l ->
    Permutation l (seq 0 (List.length srcs)) /\
    forall l1 i l2, l = l1 ++ i :: l2 -> forall b t, In b (picked (nth_src i)) ->
      t < List.length srcs -> builds b (nth_src t) = true -> In t l1.
  Proof.
    intros E. destruct (sort_sound build_graph l (seq_NoDup _ _) E) as [P O]. split; [exact P|].
    intros l1 i l2 El b t Hb Ht Hbd.
    apply (O l1 i l2 El). cbn [preds build_graph]. apply edges_spec. exists b. split; [exact Hb|]. now apply builders_spec.
  Qed.

  (* a dependency cycle gives an error, never an order: no arrangement of the sources satisfies the constraints *)
  Theorem C19_cycle : order_dscs = SCycle -> forall t, ~ topological build_graph t.
  Proof.
    apply sort_cycle. intros n p _ Hp. cbn [preds build_graph] in Hp. apply edges_spec in Hp as (b&_&E).
    apply builders_spec in E as [Hlt _]. cbn [nodes build_graph]. apply in_seq. lia.
  Qed.

  Theorem C19_terminates : order_dscs <> SFuel.
  Proof. apply sort_terminates. apply seq_NoDup. Qed.
End Order.
Print Assumptions C19_order.
Print Assumptions C19_cycle.
