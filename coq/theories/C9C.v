(* C09: the custom field types of the library as a concrete codec family for C09_record_roundtrip:
   version.Version (tag 0: V11.parse_u / V3.to_string), dependency.Dependency (tag 1: D3.parse / dep_string),
   dependency.Arch (tag 2: parse_arch / arch_string).  The two hypotheses of the generic theorem are proved, so the
   record-level round trip holds for structs whose custom fields are well-formed values of these types. *)
From Coq Require Import List Ascii String Bool Arith NArith ZArith Lia.
Require Import GS V3 V4 V11 L10 L11 C9 C9G C9I.
Require A1 D3 D4 D6 D7.
Import ListNotations.

Inductive cust := CV (v : V3.version) | CD (d : D3.dep) | CA (a : A1.arch).
Definition cenc (tag : nat) (x : cust) : str :=
  match x with CV v => V3.to_string v | CD d => D3.dep_string d | CA a => A1.arch_string a end.
Definition cdec (tag : nat) (t : str) : option cust :=
  match tag with
  | 0 => option_map CV (V11.parse_u t)
  | 1 => match D3.parse t with D3.Ok d => Some (CD d) | _ => None end
  | 2 => option_map CA (A1.parse_arch_opt t)
  | _ => None
  end.
Definition czero (tag : nat) : cust :=
  match tag with 0 => CV {| V3.epoch := 0; V3.upstream := []; V3.revision := [] |} | 1 => CD [] | _ => CA (A1.mk [] [] []) end.
(* the well-formed values: a Policy version; a dependency as the parser produces it; an architecture that ParseArch returns for some
   name (names with an empty component are refused) *)
Definition cwf (tag : nat) (x : cust) : Prop :=
  match tag, x with
  | 0, CV v => V3.wf_v v
  | 1, CD d => D4.wf_dep d
  | 2, CA a => exists n, A1.parse_arch_opt n = Some a
  | _, _ => False
  end.

Lemma c_roundtrip tag x : cwf tag x -> cenc tag x <> [] -> cdec tag (cenc tag x) = Some x.
Proof.
  destruct tag as [|[|[|tag]]]; destruct x as [v|d|a]; cbn [cwf cenc cdec]; try contradiction.
  - intros W _. now rewrite (V11.roundtrip_wf_u v W).
  - intros W _. now rewrite (D6.C05_partB d W).
  - intros (n&E) _. now rewrite (A1.arch_opt_roundtrip n a E).
Qed.

Lemma joinw_head_nonempty d x r : x <> [] -> D3.joinw d (x :: r) <> [].
Proof. intros Hx. destruct r; cbn [D3.joinw]; [exact Hx|]. destruct x; [congruence|discriminate]. Qed.

Lemma possi_string_nonempty p : D4.wf_any p -> D3.possi_string p <> [].
Proof.
  intros [W|W]; unfold D3.possi_string.
  - rewrite (D4.wp_subst p W). pose proof (D4.wp_ne p W) as Hn. destruct (D3.p_name p); [congruence|discriminate].
  - rewrite (D4.wsb p W). discriminate.
Qed.

Lemma c_empty tag x : cwf tag x -> cenc tag x = [] -> x = czero tag.
Proof.
  destruct tag as [|[|[|tag]]]; destruct x as [v|d|a]; cbn [cwf cenc czero]; try contradiction.
  - intros W E. exfalso. destruct (V4.to_string_nosp v W) as [Hne _]. congruence.
  - intros W E. destruct d as [|r rest]; [reflexivity|]. exfalso. inversion W as [|? ? [Hr Fr] _]; subst.
    destruct r as [|p r']; [congruence|]. inversion Fr as [|? ? Hp _]; subst.
    unfold D3.dep_string in E. cbn [map] in E. revert E. apply joinw_head_nonempty.
    unfold D3.relation_string. cbn [map]. apply joinw_head_nonempty. now apply possi_string_nonempty.
  - intros (n&En) E. exfalso. unfold A1.parse_arch_opt in En. cbv zeta in En. destruct (existsb A1.is_ws4 (A1.trim4 n)); [discriminate|].
    unfold A1.parse_arch_core in En. destruct (A1.arch_ok (A1.trim4 n)) eqn:O; [|discriminate]. inversion En; subst.
    apply (A1.arch_ok_not_zero (A1.trim4 n) O). now apply D7.arch_string_nonempty.
Qed.

(* C09 for the library's custom types: scalars, string lists and version / dependency / architecture fields *)
Theorem C09_roundtrip_with_library_types : forall (sch : xschema) r,
  xtyped cust cenc cdec cwf sch r -> C9G.keys_distinct xkind sch ->
  C9G.decode xkind (xvalue cust) (xzero cust czero) (xdecode cust cdec) sch
    (C9G.values (C9G.convert xkind (xvalue cust) (xmarshal cust cenc) sch r {| C9G.order := []; C9G.values := [] |})) = Some r.
Proof. exact (C09_roundtrip_all cust cenc cdec czero cwf c_roundtrip c_empty). Qed.
Print Assumptions C09_roundtrip_with_library_types.
