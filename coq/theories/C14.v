(* C14 - .deb loading exposes the package's control data and payload faithfully.
   Property theorems only.  Model: D16.load_deb = deb.loadDeb / loadDeb2 / loadDeb2Control / loadDeb2Data over
   the members the ar iterator returns (C13).  ORACLES (parameters): untar = archive/tar, decompress = the
   decoder chosen by DecompressorFor(ext), path_clean = path.Clean, decode_control = control.Unmarshal into
   deb.Control (C10), ext_of = filepath.Ext, is_tarfile; pick = the order in which Go walks the member map. *)
From Coq Require Import List Ascii String Bool Arith Lia.
Require Import GS D16 D17.
Import ListNotations.

Section C14.
  Variable ctl : Type.
  Variable untar : str -> option (list (str * str)).
  Variable decompress : str -> str -> option str.
  Variable path_clean : str -> str.
  Variable decode_control : str -> option ctl.
  Variable ext_of : str -> str.
  Variable is_tarfile : str -> bool.
  Variable pick : list member -> option member.
  Hypothesis pick_in : forall l m, pick l = Some m -> In m l.
  Hypothesis pick_some : forall l, l <> [] -> pick l <> None.
  Notation load := (load_deb ctl untar decompress path_clean decode_control ext_of is_tarfile pick).

  (* the usual arrangement - debian-binary starting "2.0\n", control.tar<cext>, data.tar<dext>, then any members of
     other names (_gpgorigin, ...): the result carries the decoded control of the first tar entry whose cleaned
     name is "control", both extensions, all members and the data tar listing *)
  Theorem C14_load_standard_package : forall junk cext cb dext db extras ctar dtar cfiles dfiles text c,
    let cn := s "control.tar" ++ cext in let dn := s "data.tar" ++ dext in
    let ms := (binary_name, ver20 ++ junk) :: (cn, cb) :: (dn, db) :: extras in
    Forall other extras -> dup_names extras = false ->
    is_tarfile cn = true -> is_tarfile dn = true ->
    decompress (ext_of cn) cb = Some ctar -> decompress (ext_of dn) db = Some dtar ->
    untar ctar = Some cfiles -> untar dtar = Some dfiles ->
    find_control_entry path_clean cfiles = Some text -> decode_control text = Some c ->
    load ms = Some {| d_control := c; d_control_bytes := cb; d_data_bytes := db;
                      d_control_ext := s "tar" ++ cext; d_data_ext := s "tar" ++ dext;
                      d_members := ms; d_data_files := dfiles |}.
  Proof. apply C14_load_standard; assumption. Qed.

  Theorem C14_control_entry_position : forall pre name text post,
    Forall (fun f => path_clean (fst f) <> s "control") pre -> path_clean name = s "control" ->
    find_control_entry path_clean (pre ++ (name, text) :: post) = Some text.
  Proof. apply find_control_at. Qed.

  (* rejections *)
  Theorem C14_reject_no_debian_binary : forall ms, lookup binary_name ms = None -> load ms = None.
  Proof. apply C14_no_binary. Qed.
  Theorem C14_reject_other_format_version : forall ms b, lookup binary_name ms = Some b -> upto_nl b <> Some ver20 -> load ms = None.
  Proof. apply C14_bad_version. Qed.
  Theorem C14_reject_no_control_member : forall ms, with_prefix (s "control.") ms = [] -> load ms = None.
  Proof. apply C14_no_control; assumption. Qed.
  Theorem C14_reject_no_data_member : forall ms, with_prefix (s "data.") ms = [] -> load ms = None.
  Proof. apply C14_no_data; assumption. Qed.
End C14.

(* loading the same bytes always gives the same result: the outcome does not depend on the map walk *)
Theorem C14_same_result_every_time : forall ctl untar decompress path_clean decode_control ext_of is_tarfile pick1 pick2 ms,
  (forall l m, pick1 l = Some m -> In m l) -> (forall l m, pick2 l = Some m -> In m l) ->
  (forall l, l <> [] -> pick1 l <> None) -> (forall l, l <> [] -> pick2 l <> None) ->
  load_deb ctl untar decompress path_clean decode_control ext_of is_tarfile pick1 ms =
  load_deb ctl untar decompress path_clean decode_control ext_of is_tarfile pick2 ms.
Proof. exact C14_deterministic. Qed.
(* path.Clean, an oracle of the loader model, as a Gallina function run against Go's by the tie: the names a control
   tarball gives its control file - "control", "./control", "control/" - all clean to "control", so the instance of
   [load_deb] with [PATH.clean] finds the control entry under each of them *)
Require PATH.
Theorem C14_control_entry_names :
  PATH.clean (GS.s "./control") = GS.s "control" /\ PATH.clean (GS.s "control") = GS.s "control" /\ PATH.clean (GS.s "control/") = GS.s "control".
Proof. exact (PATH.clean_dot_slash (GS.s "control") eq_refl). Qed.
Theorem C14_plain_entry_names_clean_to_themselves : forall n, PATH.plain n = true ->
  PATH.clean (PATH.dot :: PATH.slash :: n) = n /\ PATH.clean n = n /\ PATH.clean (n ++ [PATH.slash]) = n.
Proof. exact PATH.clean_dot_slash. Qed.
(* the standard arrangement with the path model in the place of the three oracles: for EVERY compression extension of the
   shape "" or ".<e>", with the control file under any name a tarball gives it, after any other entries *)
Require D18p.
Theorem C14_load_standard_package_with_path_model :
  forall (ctl : Type) untar decompress (decode_control : str -> option ctl) pick,
  (forall l m, pick l = Some m -> In m l) -> (forall l, l <> [] -> pick l <> None) ->
  forall junk cext cb dext db extras ctar dtar pre nm text post dfiles c,
    let cn := s "control.tar" ++ cext in let dn := s "data.tar" ++ dext in
    let ms := (binary_name, ver20 ++ junk) :: (cn, cb) :: (dn, db) :: extras in
    D18p.cext_ok cext -> D18p.cext_ok dext -> Forall other extras -> dup_names extras = false ->
    decompress (match cext with [] => s ".tar" | _ => cext end) cb = Some ctar ->
    decompress (match dext with [] => s ".tar" | _ => dext end) db = Some dtar ->
    untar ctar = Some (pre ++ (nm, text) :: post) -> untar dtar = Some dfiles ->
    Forall (fun f => PATH.clean (fst f) <> s "control") pre -> In nm [s "control"; s "./control"; s "control/"] ->
    decode_control text = Some c ->
    load_deb ctl untar decompress PATH.clean decode_control PATH.ext PATH.is_tarfile pick ms =
      Some {| d_control := c; d_control_bytes := cb; d_data_bytes := db;
              d_control_ext := s "tar" ++ cext; d_data_ext := s "tar" ++ dext;
              d_members := ms; d_data_files := dfiles |}.
Proof. exact D18p.load_standard_package_paths. Qed.
Theorem C14_other_entries_are_not_the_control_file : forall x, PATH.plain x = true -> x <> s "control" ->
  PATH.clean x <> s "control" /\ PATH.clean (PATH.dot :: PATH.slash :: x) <> s "control" /\ PATH.clean (x ++ [PATH.slash]) <> s "control".
Proof. exact D18p.other_entry_not_control. Qed.
(* path.Clean is a projection onto canonical paths (so "the entry whose cleaned name is control" does not depend on how
   often a name was cleaned before): the result is canonical, canonical paths are left alone, hence idempotence *)
Require PATHc.
Theorem C14_clean_is_a_projection : forall p, PATHc.canon (PATH.clean p) /\ PATH.clean (PATH.clean p) = PATH.clean p.
Proof. exact (fun p => conj (PATHc.clean_canon p) (PATHc.clean_idempotent p)). Qed.
Print Assumptions C14_clean_is_a_projection.
Print Assumptions C14_load_standard_package_with_path_model.
Print Assumptions C14_control_entry_names.
Print Assumptions C14_load_standard_package.
Print Assumptions C14_reject_no_control_member.
Print Assumptions C14_same_result_every_time.

(* ---- field names of the control file are not case-sensitive (Policy 5.1; the r13 finding field-name-case, repaired by
   the decoder's fold lookup): the control paragraph of a package, with its field names respelled in another letter case
   (no two of its fields differing in case only), decodes to the same record - the required fields Package, Version and
   Architecture are found, none is left at its zero value ---- *)
Require C9G C9F CX Schema_gen.
Theorem C14_control_field_names_are_case_insensitive : forall p p', C9F.fold_distinct p -> C9F.respelled p p' ->
  C9F.decode_fold CX.fd CX.cval CX.czero CX.cdecode (CX.gschema Schema_gen.deb_control_schema) p =
  C9F.decode_fold CX.fd CX.cval CX.czero CX.cdecode (CX.gschema Schema_gen.deb_control_schema) p'.
Proof. exact (C9F.decode_fold_respelled CX.fd CX.cval CX.czero CX.cdecode (CX.gschema Schema_gen.deb_control_schema)). Qed.
Example C14_lower_case_control_file :
  CX.decode_text Schema_gen.deb_control_schema (s "package: x" ++ [nl] ++ s "VERSION: 1.0" ++ [nl] ++ s "Architecture: amd64" ++ [nl]) =
  CX.decode_text Schema_gen.deb_control_schema (s "Package: x" ++ [nl] ++ s "Version: 1.0" ++ [nl] ++ s "Architecture: amd64" ++ [nl]) /\
  CX.decode_text Schema_gen.deb_control_schema (s "package: x" ++ [nl] ++ s "VERSION: 1.0" ++ [nl] ++ s "Architecture: amd64" ++ [nl]) <> None.
Proof. vm_compute. split; [reflexivity|discriminate]. Qed.
Print Assumptions C14_control_field_names_are_case_insensitive.
