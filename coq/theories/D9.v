(* C04 (part): the clauses after a package name may come in any order, with any run of blanks between them *)
From Coq Require Import List Ascii String Bool Arith NArith Lia.
Require Import A1 D3 D4 D14.
Import ListNotations.

Lemma controllers_ws f p w i : all_ws w -> controllers f p (w ++ i) = controllers f p i.
Proof. intros H. destruct f; [reflexivity|]. cbn [controllers]. now rewrite eat_ws_app. Qed.
Lemma controllers_ws_norm f p w i : all_ws w -> controllers f p (w ++ i) = controllers f p (ch 32 :: i).
Proof.
  intros H. rewrite controllers_ws by exact H. symmetry. apply (controllers_ws f p [ch 32] i). repeat constructor.
Qed.

(* the version clause with its inner blanks: '(' w1 op w2 number w3 ')' *)
Definition ver_text_ws (w1 w2 w3 : str) (v : vrel) : str := ch 40 :: w1 ++ v_op v ++ w2 ++ v_num v ++ w3 ++ [ch 41].
Inductive clause := CVer (w1 w2 w3 : str) (v : vrel) | CArchs (nt : bool) (w0 : str) (items : list (arch * str)) | CStages (w0 : str) (items : list (stage * str)).
Definition clause_text (c : clause) : str :=
  match c with CVer w1 w2 w3 v => ver_text_ws w1 w2 w3 v | CArchs nt w0 items => archs_text_ws nt w0 items | CStages w0 items => stageset_text_ws w0 items end.
Definition apply_clause (p : possi) (c : clause) : possi :=
  match c with CVer _ _ _ v => set_ver p v | CArchs nt _ items => set_archs p {| a_not := nt; a_list := map fst items |} | CStages _ items => add_stages p (map fst items) end.
(* the version number is not empty, and after an operator written without a following blank it does not
   start with '=', '<' or '>' (which would read as "==", "=<", "=>") *)
Definition num_ok (w2 : str) (v : vrel) : Prop := v_num v <> [] /\ opnext (w2 ++ v_num v) = true.
Lemma opnext_app x y : x <> [] -> opnext (x ++ y) = opnext x.
Proof. destruct x; [congruence|reflexivity]. Qed.
Definition clause_ok (p : possi) (c : clause) : Prop :=
  match c with
  | CVer w1 w2 w3 v => all_ws w1 /\ all_ws w2 /\ all_ws w3 /\ wf_ver v /\ num_ok w2 v /\ p_ver p = None   (* at most one version clause *)
  | CArchs nt w0 items => items <> [] /\ Forall (wf_archent nt) (map fst items) /\ seps_ok items /\ all_ws w0 /\
                p_archs p = Some {| a_not := false; a_list := [] |}             (* at most one architecture clause *)
  | CStages w0 items => items <> [] /\ Forall wf_stage (map fst items) /\ sseps_ok items /\ all_ws w0   (* any number of profile groups *)
  end.
Inductive clauses_ok : possi -> list (str * clause) -> Prop :=
| co_nil p : clauses_ok p []
| co_cons p w c r : all_ws w -> clause_ok p c -> clauses_ok (apply_clause p c) r -> clauses_ok p ((w, c) :: r).   (* w may be EMPTY: "foo(>= 1)[amd64]<x>" *)
Definition clauses_text (cl : list (str * clause)) : str :=
  List.concat (map (fun wc => fst wc ++ clause_text (snd wc)) cl).

(* one profile group, as a transformer *)
Lemma controllers_stage1 p st more x : st <> [] -> Forall wf_stage st ->
  evOk (fun f => controllers f (add_stages p st) more) x ->
  evOk (fun f => controllers f p (ch 32 :: stageset_text st ++ more)) x.
Proof.
  intros Hne Ws (f2&H2).
  destruct (stageset_loop_render st [] more Ws) as (f1&H1).
  exists (S (f1 + f2)). intros [|f] Hf; [lia|].
  unfold stageset_text. cbn [app controllers eat_ws].
  change (is_ws (ch 32)) with true. cbv iota. cbn [eat_ws]. change (is_ws (ch 60)) with false. cbv iota. cbn [peek].
  change (eqc (ch 60) 44 || eqc (ch 60) 124 || eqc (ch 60) 0) with false.
  change (eqc (ch 60) 40) with false. change (eqc (ch 60) 91) with false. change (eqc (ch 60) 60) with true. cbv iota.
  unfold parse_stageset. cbn [eat_ws]. change (is_ws (ch 60)) with false. cbv iota. cbn [adv tl].
  rewrite <- app_assoc. cbn [app]. rewrite (H1 f ltac:(lia)). cbn [app].
  destruct st as [|s0 st']; [congruence|]. apply H2. lia.
Qed.

Lemma parse_operator_ws w o rest : all_ws w -> In o ops -> opnext rest = true -> parse_operator (w ++ o ++ rest) = Ok (o, rest).
Proof.
  intros Hw Ho Hn. rewrite <- (parse_operator_op o rest Ho Hn). unfold parse_operator. rewrite (eat_ws_app w _ Hw). reflexivity.
Qed.
Lemma all_ws_numc w : all_ws w -> forallb numc w = true.
Proof.
  intros H. apply forallb_forall. intros c Hc. unfold all_ws in H. rewrite Forall_forall in H. specialize (H c Hc).
  pose proof (by_enum (fun c => negb (is_ws c) || numc c) eq_refl c) as F. cbv beta in F. rewrite H in F. exact F.
Qed.
Lemma all_ws_rev w : all_ws w -> all_ws (rev w).
Proof. apply Forall_rev. Qed.

Lemma parse_version_render_ws w1 w2 w3 v rest : all_ws w1 -> all_ws w2 -> all_ws w3 -> wf_ver v -> num_ok w2 v ->
  parse_version (ver_text_ws w1 w2 w3 v ++ rest) = Ok (v, rest).
Proof.
  intros H1 H2 H3 [Hop Hnum Hlead Htrail] [Hne Hon]. unfold ver_text_ws, parse_version.
  cbn [app eat_ws]. change (is_ws (ch 40)) with false. cbv iota. cbn [adv tl].
  assert (Hon' : opnext (w2 ++ v_num v ++ w3 ++ [ch 41] ++ rest) = true).
  { rewrite app_assoc, opnext_app; [exact Hon|]. destruct w2; [cbn; exact Hne|discriminate]. }
  rewrite <- !app_assoc. rewrite (parse_operator_ws w1 (v_op v) _ H1 Hop Hon'). cbv iota beta.
  rewrite (eat_ws_app w2 _ H2).
  assert (HL : headok (v_num v ++ w3 ++ [ch 41] ++ rest)).
  { unfold headok in *. destruct (v_num v) as [|c r]; [congruence|exact Hlead]. }
  rewrite (eat_ws_id _ HL).
  assert (Hn : forallb numc (v_num v ++ w3) = true) by (rewrite forallb_app, Hnum; apply all_ws_numc; exact H3).
  rewrite app_assoc. cbn [app]. rewrite (number_word (v_num v ++ w3) [] rest Hn). cbn [app].
  rewrite rev_app_distr, (eat_ws_app (rev w3) _ (all_ws_rev w3 H3)), Htrail.
  destruct v; reflexivity.
Qed.

Lemma controllers_ver1 p w1 w2 w3 v more x : all_ws w1 -> all_ws w2 -> all_ws w3 -> wf_ver v -> num_ok w2 v -> p_ver p = None ->
  evOk (fun f => controllers f (set_ver p v) more) x ->
  evOk (fun f => controllers f p (ch 32 :: ver_text_ws w1 w2 w3 v ++ more)) x.
Proof.
  intros H1 H2 H3 W Hne Hn. apply evOk_step. intros f. cbn [controllers]. rewrite eat_ws_sp.
  assert (HO : eat_ws (ver_text_ws w1 w2 w3 v ++ more) = ver_text_ws w1 w2 w3 v ++ more) by reflexivity. rewrite HO.
  assert (HP : peek (ver_text_ws w1 w2 w3 v ++ more) = ch 40) by reflexivity. rewrite HP.
  change (eqc (ch 40) 44 || eqc (ch 40) 124 || eqc (ch 40) 0) with false. change (eqc (ch 40) 40) with true. cbv iota.
  rewrite Hn. rewrite (parse_version_render_ws w1 w2 w3 v more H1 H2 H3 W Hne). reflexivity.
Qed.

Lemma evOk_ext {A} (F G : nat -> outcome A) x : (forall f, F f = G f) -> evOk G x -> evOk F x.
Proof. intros H (f0&H0). exists f0. intros f Hf. rewrite H. now apply H0. Qed.

(* C04: any order, any blanks between clauses *)
Theorem controllers_any_order : forall cl p rest rest', clauses_ok p cl -> tail_ok rest rest' ->
  evOk (fun f => controllers f p (clauses_text cl ++ rest)) (fold_left apply_clause (map snd cl) p, rest').
Proof.
  induction cl as [|[w c] cl IH]; intros p rest rest' W T.
  - exists 1%nat. intros [|f] Hf; [lia|]. cbn [clauses_text map List.concat app fold_left]. now apply controllers_end.
  - inversion W as [|? ? ? ? Hw Hc Wr]; subst. specialize (IH (apply_clause p c) rest rest' Wr T).
    unfold clauses_text in *. cbn [map List.concat fst snd fold_left]. rewrite <- !app_assoc.
    eapply evOk_ext; [intros f; apply (controllers_ws_norm f p w _ Hw)|].
    destruct c as [w1 w2 w3 v|nt w0 items|w0 items]; cbn [clause_text apply_clause clause_ok] in *.
    + destruct Hc as (A1&A2&A3&Wv&Hnn&Hn). now apply controllers_ver1.
    + destruct Hc as (Hl&Wa&Sp&Hw0&He). now apply controllers_archs_ws.
    + destruct Hc as (Hl&Ws&Sp&Hw0). now apply controllers_stage_ws.
Qed.
Print Assumptions controllers_any_order.
