(* C04: each listed rejection class is a refused alternative (D19r.bad_alt), hence rejected by Parse wherever it
   stands in the field: in the first relation or after any complete relations, as the first or a later alternative. *)
From Coq Require Import List Ascii String Bool Arith NArith Lia.
Require Import A1 D3 D4 D5 D6 D14 D9 D10 D12 D13 D15 D16r D17r D18r D19r.
Import ListNotations.

Section Classes.
  Variables (name : str) (q : option arch) (cl : list (str * clause)).
  Hypothesis Hne : name <> [].
  Hypothesis Hc : forallb namec name = true.
  Hypothesis Hd : eqc (peek name) 36 = false.
  Hypothesis Ha : match q with None => True | Some a => forallb mac (arch_string a) = true /\ parse_arch (arch_string a) = a /\ arch_ok (arch_string a) = true end.
  Hypothesis W : clauses_ok (base name q) cl.

  (* the clause loop is entered on a blank: either some clause precedes, or at least one blank is written *)
  Definition sep_ok (w : str) : Prop := cl <> [] \/ w <> [].
  Lemma head_ok w X : all_ws w -> sep_ok w -> ctlhead (peek (clauses_text cl ++ w ++ X)) = true.
  Proof.
    intros Hw [NE|NE]; [now apply (clauses_head cl (base name q))|].
    destruct cl as [|c0 cl0]; [|now apply (clauses_head (c0 :: cl0) (base name q))].
    cbn [clauses_text map List.concat app]. unfold ctlhead. now rewrite ws_head.
  Qed.
  Lemma mk_bad w X : all_ws w -> sep_ok w -> evRes (fun f => controllers f (base name q) (clauses_text cl ++ w ++ X)) Err ->
    bad_alt (name ++ qual_text q ++ clauses_text cl ++ w ++ X).
  Proof.
    intros Hw Hs H. exists name, q, (clauses_text cl ++ w ++ X). repeat split; try assumption. now apply head_ok.
  Qed.

  (* a second version clause, a second architecture list *)
  Lemma bad_second_version w y v0 : p_ver (result name q cl) = Some v0 -> all_ws w -> sep_ok w ->
    bad_alt (name ++ qual_text q ++ clauses_text cl ++ w ++ ch 40 :: y).
  Proof. intros Hv Hw Hs. apply mk_bad; [exact Hw|exact Hs|]. now apply (controllers_second_version cl (base name q) w y v0). Qed.
  Lemma bad_second_archs w y : a_list (archs_of (result name q cl)) <> [] -> all_ws w -> sep_ok w ->
    bad_alt (name ++ qual_text q ++ clauses_text cl ++ w ++ ch 91 :: y).
  Proof. intros Hv Hw Hs. apply mk_bad; [exact Hw|exact Hs|]. now apply (controllers_second_archs cl (base name q) w y). Qed.
  (* two names without a separator *)
  Lemma bad_two_names w c x : all_ws w -> sep_ok w -> is_ws c = false ->
    eqc c 44 || eqc c 124 || eqc c 0 = false -> eqc c 40 = false -> eqc c 91 = false -> eqc c 60 = false ->
    bad_alt (name ++ qual_text q ++ clauses_text cl ++ w ++ c :: x).
  Proof.
    intros Hw Hs Nw N1 N2 N3 N4. apply mk_bad; [exact Hw|exact Hs|]. apply clauses_then; [exact W|]. exists 1%nat. intros [|f] Hf; [lia|]. now apply reject_stray.
  Qed.
  (* an unknown operator; a version clause that is never closed *)
  Lemma bad_unknown_operator w rest : all_ws w -> sep_ok w -> p_ver (result name q cl) = None -> parse_operator rest = Err ->
    bad_alt (name ++ qual_text q ++ clauses_text cl ++ w ++ ch 40 :: rest).
  Proof.
    intros Hw Hs Hv E. apply mk_bad; [exact Hw|exact Hs|]. apply clauses_then; [exact W|]. exists 1%nat. intros [|f] Hf; [lia|].
    apply controllers_version_err; [exact Hw|exact Hv|now apply parse_version_bad_operator].
  Qed.
  Lemma bad_unterminated_version w op rest x : all_ws w -> sep_ok w -> p_ver (result name q cl) = None ->
    In op ops -> opnext (rest ++ x) = true -> forallb numc rest = true -> bad_in_number (peek x) = true ->
    bad_alt (name ++ qual_text q ++ clauses_text cl ++ w ++ ch 40 :: op ++ rest ++ x).
  Proof.
    intros Hw Hs Hv Ho Hn Hr B. apply mk_bad; [exact Hw|exact Hs|]. apply clauses_then; [exact W|]. exists 1%nat. intros [|f] Hf; [lia|].
    apply controllers_version_err; [exact Hw|exact Hv|now apply parse_version_open].
  Qed.

  (* mixed negation; a bracket that is never closed *)
  Hypothesis Hempty : p_archs (result name q cl) = Some {| a_not := false; a_list := [] |}.
  Lemma bad_archs X w w0 : all_ws w -> sep_ok w -> all_ws w0 ->
    evRes (fun f => archs_loop f {| a_not := false; a_list := [] |} X) Err ->
    bad_alt (name ++ qual_text q ++ clauses_text cl ++ w ++ ch 91 :: w0 ++ X).
  Proof. intros Hw Hs Hw0 H. apply mk_bad; [exact Hw|exact Hs|]. apply clauses_then; [exact W|]. now apply controllers_archs_err. Qed.
  Lemma bad_mixed_negation nt items w w0 T : all_ws w -> sep_ok w -> all_ws w0 -> items <> [] ->
    Forall (wf_archent nt) (map fst items) -> seps1 items ->
    is_ws (peek T) = false -> eqc (peek T) 0 = false -> eqc (peek T) 93 = false -> T <> [] ->
    Bool.eqb nt (eqc (peek T) 33) = false ->
    bad_alt (name ++ qual_text q ++ clauses_text cl ++ w ++ ch 91 :: w0 ++ items_text nt items ++ T).
  Proof.
    intros Hw Hs Hw0 Hi Wf Sp Nws N0 N93 HT Hmix. apply bad_archs; try assumption.
    apply (archs_then nt items [] T Err Wf Sp). cbn [app].
    replace (match map fst items with [] => false | _ => nt end) with nt by (destruct items; [congruence|reflexivity]).
    exists 1%nat. intros [|f] Hf; [lia|]. cbn [archs_loop]. rewrite (eat_ws_id T Nws).
    destruct T as [|c r]; [congruence|]. cbn [peek] in *. rewrite N0, N93.
    rewrite (reject_mixed_negation {| a_not := nt; a_list := map fst items |} (c :: r)); [reflexivity| | |].
    - cbn [a_list]. destruct items; [congruence|discriminate].
    - exact Nws.
    - exact Hmix.
  Qed.
  Lemma bad_unterminated_bracket nt items w w0 tail x : all_ws w -> sep_ok w -> all_ws w0 ->
    Forall (wf_archent nt) (map fst items) -> seps1 items -> forallb archc tail = true -> bad_in_arch (peek x) = true ->
    bad_alt (name ++ qual_text q ++ clauses_text cl ++ w ++ ch 91 :: w0 ++ items_text nt items ++ tail ++ x).
  Proof.
    intros Hw Hs Hw0 Wf Sp Ht B. apply bad_archs; try assumption.
    apply (archs_then nt items [] (tail ++ x) Err Wf Sp). cbn [app].
    exists 1%nat. intros [|f] Hf; [lia|]. cbn [archs_loop].
    destruct (tail ++ x) as [|c r] eqn:ET; [reflexivity|].
    (* the first byte behind the tokens: of a name, or the byte that ends the clause with an error *)
    assert (Hc0 : is_ws c = false /\ eqc c 93 = false /\ eqc c 33 = false).
    { destruct tail as [|c1 r1].
      - cbn [app] in ET. subst x. cbn [peek] in B. now apply bad_arch_facts.
      - cbn [app] in ET. inversion ET; subst c1 r. cbn in Ht. apply andb_true_iff in Ht as [Hc0 _].
        unfold archc in Hc0. apply negb_true_iff in Hc0. apply orb_false_iff in Hc0 as [Hc1 Cws]. apply orb_false_iff in Hc1 as [Hc1 C93].
        apply orb_false_iff in Hc1 as [_ C33]. auto. }
    destruct Hc0 as (Cws&C93&C33).
    assert (HO : headok (c :: r)) by (unfold headok; cbn; exact Cws).
    rewrite (eat_ws_id _ HO). destruct (eqc c 0); [reflexivity|]. rewrite C93. unfold parse_one_arch. rewrite (eat_ws_id _ HO). cbn [peek]. rewrite C33.
    rewrite <- ET. rewrite (reject_open_bracket tail [] x Ht B).
    destruct (a_list _); [reflexivity|]. destruct (Bool.eqb _ false); reflexivity.
  Qed.
End Classes.

(* C04: a refused alternative B makes the whole field refused, wherever it stands *)
Theorem C04_reject_anywhere B : bad_alt B ->
  (* first alternative of the first relation *)
  (forall w0, all_ws w0 -> parse (w0 ++ B) = Err) /\
  (* a later alternative of the first relation *)
  (forall w0 t p its wb wa, all_ws w0 -> alt_okR t p -> Forall itemR_ok its -> all_ws wb -> all_ws wa ->
     parse (w0 ++ t ++ more2_text its ++ wb ++ ch 124 :: wa ++ B) = Err) /\
  (* first alternative of a later relation *)
  (forall w0 r0 more w, all_ws w0 -> lrelR_ok r0 -> Forall (fun wr => all_ws (fst wr) /\ lrelR_ok (snd wr)) more -> all_ws w ->
     parse (w0 ++ lrel2_text r0 ++ tail2_text more ++ ch 44 :: w ++ B) = Err) /\
  (* a later alternative of a later relation *)
  (forall w0 r0 more w t p its wb wa, all_ws w0 -> lrelR_ok r0 -> Forall (fun wr => all_ws (fst wr) /\ lrelR_ok (snd wr)) more -> all_ws w ->
     alt_okR t p -> Forall itemR_ok its -> all_ws wb -> all_ws wa ->
     parse (w0 ++ lrel2_text r0 ++ tail2_text more ++ ch 44 :: w ++ t ++ more2_text its ++ wb ++ ch 124 :: wa ++ B) = Err).
Proof.
  intros HB. repeat split.
  - intros w0 Hw0. apply parse_err_first_relation; [exact Hw0|now apply bad_rel_first_alternative].
  - intros w0 t p its wb wa Hw0 At Wi Hwb Hwa. apply parse_err_first_relation; [exact Hw0|now apply (bad_rel_later_alternative t p)].
  - intros w0 r0 more w Hw0 W0 Wm Hw. apply parse_err_later_relation; try assumption. now apply bad_rel_first_alternative.
  - intros w0 r0 more w t p its wb wa Hw0 W0 Wm Hw At Wi Hwb Hwa. apply parse_err_later_relation; try assumption.
    now apply (bad_rel_later_alternative t p).
Qed.
Print Assumptions C04_reject_anywhere.

(* the alternatives of the Policy grammar meet alt_okR (so the prefixes above are inhabited by every well-formed
   prefix: plain and substvar alternatives, in any layout) *)
Theorem C04_prefix_alternatives_ok :
  (forall name q cl, name <> [] -> forallb namec name = true -> eqc (peek name) 36 = false ->
     (match q with None => True | Some a => forallb mac (arch_string a) = true /\ parse_arch (arch_string a) = a /\ arch_ok (arch_string a) = true end) ->
     clauses_ok (base name q) cl -> alt_okR (name ++ qual_text q ++ clauses_text cl) (result name q cl)) /\
  (forall p, wf_subst p -> alt_okR (possi_string p) p).
Proof. split; [exact alt_freeR|exact alt_substR]. Qed.

(* the unterminated substvar, at any position: "${name" up to the end of the input *)
Lemma bad_rel_open_substvar nm x : forallb subc nm = true -> bad_in_substvar (peek x) = true -> bad_rel (ch 36 :: ch 123 :: nm ++ x).
Proof.
  intros Hn B. split; [repeat split|].
  intros rel d. exists 2%nat. intros [|[|f]] Hf; try lia.
  rewrite relation_loop_S. cbn [peek]. change (eqc (ch 36) 0 || eqc (ch 36) 44) with false. change (eqc (ch 36) 124) with false. cbv iota.
  unfold parse_possibility. assert (E0 : eat_ws (ch 36 :: ch 123 :: nm ++ x) = ch 36 :: ch 123 :: nm ++ x) by reflexivity.
  rewrite E0. cbn [peek]. change (eqc (ch 36) 36) with true. cbv iota.
  unfold parse_substvar. rewrite E0. cbn [adv tl]. now rewrite (reject_open_substvar nm [] x Hn B).
Qed.
Theorem C04_reject_open_substvar_anywhere nm x : forallb subc nm = true -> bad_in_substvar (peek x) = true ->
  (forall w0, all_ws w0 -> parse (w0 ++ ch 36 :: ch 123 :: nm ++ x) = Err) /\
  (forall w0 r0 more w, all_ws w0 -> lrelR_ok r0 -> Forall (fun wr => all_ws (fst wr) /\ lrelR_ok (snd wr)) more -> all_ws w ->
     parse (w0 ++ lrel2_text r0 ++ tail2_text more ++ ch 44 :: w ++ ch 36 :: ch 123 :: nm ++ x) = Err).
Proof.
  intros Hn B. split.
  - intros w0 Hw0. apply parse_err_first_relation; [exact Hw0|now apply bad_rel_open_substvar].
  - intros w0 r0 more w Hw0 W0 Wm Hw. apply parse_err_later_relation; try assumption. now apply bad_rel_open_substvar.
Qed.
Print Assumptions C04_reject_open_substvar_anywhere.
