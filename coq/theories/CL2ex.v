From Coq Require Import List Ascii String Bool Arith Lia.
Require Import GS R2 CL CL2.
Import ListNotations.
Definition pv (x : str) : option str := Some x.
Definition e1 : rentry str str := {| r_blanks := 1; r_source := s "hello"; r_vstr := s "1.0-1"; r_v := s "1.0-1";
  r_target := s "unstable testing"; r_args := [(s "urgency", s "medium"); (s "binary-only", s "yes")];
  r_body := [[]; s "  * Initial release. -- not a trailer"; s "    (Closes: #1; really)"; []];
  r_whom := s "A B <a@b.c>"; r_date := s "Mon, 02 Jan 2006 15:04:05 -0700"; r_t := s "Mon, 02 Jan 2006 15:04:05 -0700" |}.
Ltac fr := repeat (constructor; try discriminate).
Ltac cl := (split; [discriminate|split; reflexivity]).
Example e1_ok : rentry_ok str str pv pv e1.
Proof.
  unfold rentry_ok, e1. cbn [r_source r_vstr r_v r_target r_args r_body r_whom r_date r_t].
  repeat match goal with |- _ /\ _ => split end; try cl; try (vm_compute; fr; fail); try reflexivity; try discriminate.
Qed.
Example C17_nonvacuous :
  CL.parse str str pv pv (unlines (doc str str [e1; e1] 2)) = Some [entry_val str str e1; entry_val str str e1].
Proof.
  apply (C17_parse_text str str pv pv [e1; e1] 2).
  - constructor; [apply e1_ok|constructor; [apply e1_ok|constructor]].
  - vm_compute. fr.
Qed.
