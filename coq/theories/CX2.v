(* C10 glue: for a field whose regenerated descriptor says "slice of strings, delimiter d (not a blank), strip set S",
   the executed decoder CX.decode_kind is exactly L10.decode_list d S - the function the list-field theorems
   (C10_list_field, C10_lines_field, C10_folded_comma_list) are about. *)
From Coq Require Import List Ascii String Bool Arith NArith ZArith Lia.
Require Import GS L10 CX SchemaDefs.
Import ListNotations.

Lemma mapM_total {A B : Type} (g : A -> B) : forall l, mapM_opt (fun e => Some (g e)) l = Some (map g l).
Proof.
  induction l as [|e r IH]; [reflexivity|].
  change (mapM_opt (fun e0 => Some (g e0)) (e :: r)) with
    (match Some (g e), mapM_opt (fun e0 => Some (g e0)) r with Some x, Some xs => Some (x :: xs) | _, _ => None end).
  now rewrite IH.
Qed.

Theorem CX_slice_of_strings (f : fd) (d : ascii) t :
  has_delim f = true -> delim f = [d] -> d <> " "%char ->
  decode_kind f (KSlice KString) t = Some (XList (map XS (L10.decode_list d (in_set (strip f)) t))).
Proof.
  intros Hd Ed Nd. cbn [decode_kind]. rewrite Hd, Ed.
  assert (E1 : CX.seq [d] [] = false) by (unfold CX.seq, D3.seq; destruct (list_eq_dec ascii_dec [d] []); [discriminate|reflexivity]).
  rewrite E1. cbn [negb andb].
  assert (E2 : CX.seq [d] (lit " ") = false).
  { unfold CX.seq, D3.seq. destruct (list_eq_dec ascii_dec [d] (lit " ")) as [E|]; [inversion E; congruence|reflexivity]. }
  rewrite E2. cbv zeta. unfold L10.decode_list, trim_set.
  destruct (L10.trim (in_set (strip f)) t) as [|c0 t0]; [reflexivity|].
  rewrite (mapM_total (fun e => XS (L10.trim (in_set (strip f)) e))). cbn [option_map]. now rewrite map_map.
Qed.
Print Assumptions CX_slice_of_strings.

(* e.g. the DSC field Binaries as the schema says it today *)
Require Import Schema_gen.
Example dsc_binaries_decoder : exists f, find_field dsc_schema (s "Binaries") = Some f /\ key f = s "Binary" /\
  forall t, decode_kind f (kind f) t = Some (XList (map XS (L10.decode_list ","%char (in_set (strip f)) t))).
Proof.
  eexists. split; [vm_compute; reflexivity|]. split; [reflexivity|]. intros t.
  apply CX_slice_of_strings; [reflexivity|reflexivity|discriminate].
Qed.
