package main

import (
	"encoding/json"
	"fmt"
	"sort"

	"pault.ag/go/debian/version"
)

func mkv(a []string, i int) version.Version {
	return version.Version{Epoch: argUint(arg(a, i)), Version: arg(a, i+1), Revision: arg(a, i+2)}
}

func showV(v version.Version) string {
	return fmt.Sprintf("%d %s %s", v.Epoch, hx(v.Version), hx(v.Revision))
}

func init() {
	ops["vcmp"] = func(a []string) string { return sgn(version.Compare(mkv(a, 0), mkv(a, 3))) }
	// vcmptext a b: both texts parsed, then compared - "rejected" when either is refused
	ops["vcmptext"] = func(a []string) string {
		x, err := version.Parse(arg(a, 0))
		if err != nil {
			return "rejected"
		}
		y, err := version.Parse(arg(a, 1))
		if err != nil {
			return "rejected"
		}
		return sgn(version.Compare(x, y))
	}
	// vjsonvalue text: the parsed Version handed to encoding/json BY VALUE (as Parse returns it), inside a struct and a map too,
	// and read back: "marshalled text ... and parsing that rendering yields the same value again"
	ops["vjsonvalue"] = func(a []string) string {
		v, err := version.Parse(arg(a, 0))
		if err != nil {
			return "rejected"
		}
		b1, e1 := json.Marshal(v)
		b2, e2 := json.Marshal(struct{ V version.Version }{v})
		b3, e3 := json.Marshal(map[string]version.Version{"k": v})
		if e1 != nil || e2 != nil || e3 != nil {
			return "marshal-error"
		}
		var w1 version.Version
		var w2 struct{ V version.Version }
		var w3 map[string]version.Version
		if json.Unmarshal(b1, &w1) != nil || json.Unmarshal(b2, &w2) != nil || json.Unmarshal(b3, &w3) != nil {
			return "unmarshal-error " + hx(string(b1))
		}
		if w1 != v || w2.V != v || w3["k"] != v {
			return "differs"
		}
		return "same " + hx(string(b1))
	}
	ops["vless"] = func(a []string) string {
		return showBool(version.Slice{mkv(a, 0), mkv(a, 3)}.Less(0, 1))
	}
	ops["vrevcmp"] = func(a []string) string {
		return sgn(version.Compare(version.Version{Version: arg(a, 0)}, version.Version{Version: arg(a, 1)}))
	}
	ops["vparse"] = func(a []string) string {
		v, err := version.Parse(arg(a, 0))
		if err != nil {
			if !v.Empty() {
				return "err-with-value"
			}
			return "err"
		}
		return "ok " + showV(v)
	}
	ops["vstring"] = func(a []string) string { return hx(mkv(a, 0).String()) }
	// vcmpbuf a b c: versions a and b are decoded with UnmarshalText out of ONE reused buffer (a network or file read buffer),
	// which is overwritten again afterwards; they must compare - with each other and with c - exactly as the versions parsed
	// from fresh strings do, and sort the same
	ops["vcmpbuf"] = func(a []string) string {
		buf := make([]byte, 256)
		var va, vb version.Version
		n := copy(buf, arg(a, 0))
		if err := va.UnmarshalText(buf[:n]); err != nil {
			return "err"
		}
		n = copy(buf, arg(a, 1))
		if err := vb.UnmarshalText(buf[:n]); err != nil {
			return "err"
		}
		for k := range buf {
			buf[k] = '7'
		}
		pa, e1 := version.Parse(arg(a, 0))
		pb, e2 := version.Parse(arg(a, 1))
		pc, e3 := version.Parse(arg(a, 2))
		if e1 != nil || e2 != nil || e3 != nil {
			return "err"
		}
		got := sgn(version.Compare(va, pc)) + " " + sgn(version.Compare(vb, pc)) + " " + sgn(version.Compare(va, vb)) + " " + sgn(version.Compare(pc, va))
		want := sgn(version.Compare(pa, pc)) + " " + sgn(version.Compare(pb, pc)) + " " + sgn(version.Compare(pa, pb)) + " " + sgn(version.Compare(pc, pa))
		if got != want {
			return "diff " + got + " | " + want
		}
		return "same " + got
	}
	// the small accessors: StringWithoutEpoch, IsNative, Empty on a directly constructed value
	ops["vacc"] = func(a []string) string {
		v := mkv(a, 0)
		return hx(v.StringWithoutEpoch()) + " " + showBool(v.IsNative()) + " " + showBool(v.Empty())
	}
	// Parse, StringWithoutEpoch, Parse again
	ops["vnoepoch"] = func(a []string) string {
		v, err := version.Parse(arg(a, 0))
		if err != nil {
			return "err"
		}
		t := v.StringWithoutEpoch()
		w, err := version.Parse(t)
		if err != nil {
			return "ok " + hx(t) + " err"
		}
		return "ok " + hx(t) + " ok " + showV(w)
	}
	ops["vroundtrip"] = func(a []string) string {
		v, err := version.Parse(arg(a, 0))
		if err != nil {
			return "err"
		}
		t := v.String()
		w, err := version.Parse(t)
		if err != nil {
			return "ok " + hx(t) + " err"
		}
		return "ok " + hx(t) + " ok " + showV(w)
	}
	// the other renderings C03 names: control-field text, marshalled text, JSON
	ops["vforms"] = func(a []string) string {
		v, err := version.Parse(arg(a, 0))
		if err != nil {
			return "err"
		}
		res := []string{}
		// control text into a zero and into a non-zero receiver
		ct, err := v.MarshalControl()
		if err != nil {
			return "marshalcontrol-err"
		}
		var z version.Version
		if err := z.UnmarshalControl(ct); err != nil {
			res = append(res, "err")
		} else {
			res = append(res, showV(z))
		}
		nz := version.Version{Epoch: 7, Version: "9", Revision: "9"}
		if err := nz.UnmarshalControl(ct); err != nil {
			res = append(res, "err")
		} else {
			res = append(res, showV(nz))
		}
		mt, err := v.MarshalText()
		if err != nil {
			return "marshaltext-err"
		}
		var t version.Version
		// encoding.TextUnmarshaler: the callee must copy what it keeps.  The buffer is the caller's and is overwritten
		// right after the call (a reused read buffer); the version must not change with it.
		mbuf := append([]byte{}, mt...)
		if err := t.UnmarshalText(mbuf); err != nil {
			res = append(res, "err")
		} else {
			for k := range mbuf {
				mbuf[k] = '9'
			}
			res = append(res, showV(t))
		}
		js, err := json.Marshal(&v)
		if err != nil {
			return "json-err"
		}
		var j version.Version
		if err := json.Unmarshal(js, &j); err != nil {
			res = append(res, "err")
		} else {
			res = append(res, showV(j))
		}
		return "ok " + hx(ct) + " " + hx(string(mt)) + " " + showList(res)
	}
	// sort.Sort(version.Slice) on versions given as e,u,r triples
	ops["vsort"] = func(a []string) string {
		var s version.Slice
		for i := 0; i+2 < len(a); i += 3 {
			s = append(s, mkv(a, i))
		}
		sort.Sort(s)
		items := []string{}
		for _, v := range s {
			items = append(items, "( "+showV(v)+" )")
		}
		return showList(items)
	}
}
