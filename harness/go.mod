module verif/harness

go 1.19

require pault.ag/go/debian v0.0.0

require (
	golang.org/x/crypto v0.9.0 // indirect
	pault.ag/go/topsort v0.1.1 // indirect
)

replace pault.ag/go/debian => /repo
