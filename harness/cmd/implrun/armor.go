package main

import (
	"bytes"
	"encoding/base64"
	"strconv"
	"strings"

	"golang.org/x/crypto/openpgp/armor"
)

// b64dec4 four-bytes: base64.StdEncoding.Decode as the armor reader and the library call it on the four characters behind
// the '=' of a checksum line: the number of bytes, or err.
// armorcrc data: the checksum line armor.Encode writes for the data.
func init() {
	ops["b64dec4"] = func(a []string) string {
		in := []byte(arg(a, 0))
		if len(in) != 4 {
			return "bad-length"
		}
		var out [3]byte
		n, err := base64.StdEncoding.Decode(out[:], in)
		if err != nil {
			return "err"
		}
		return strconv.Itoa(n)
	}
	ops["armorcrc"] = func(a []string) string {
		var buf bytes.Buffer
		w, err := armor.Encode(&buf, "PGP SIGNATURE", nil)
		if err != nil {
			return "harness-error"
		}
		w.Write([]byte(arg(a, 0)))
		w.Close()
		for _, line := range strings.Split(buf.String(), "\n") {
			if len(line) == 5 && line[0] == '=' {
				return hx(line)
			}
		}
		return "no-checksum-line"
	}
}
