(* C10: checksum and file lists.  (1) for ANY element kind, a slice field with a one-byte delimiter other than the
   blank is decoded element-wise over L10.decode_list (the function of the list theorems); (2) strings.Fields on
   "hash size name" with ASCII non-blank tokens gives the three tokens; hence (3) a Files / Checksums-* value in the
   real layout - a newline, then one " hash size name" line per file - decodes to the (algorithm, hash, size, name)
   tuples in order, tagged with the field's own algorithm. *)
From Coq Require Import List Ascii String Bool Arith NArith ZArith Lia.
Require Import GS L10 L12 V11 CX CX2 SchemaDefs.
Require D4.
Import ListNotations.

Lemma mapM_map {A B C : Type} (g : B -> option C) (h : A -> B) : forall l, mapM_opt (fun e => g (h e)) l = mapM_opt g (map h l).
Proof.
  induction l as [|e r IH]; [reflexivity|].
  change (mapM_opt (fun e0 => g (h e0)) (e :: r)) with
    (match g (h e), mapM_opt (fun e0 => g (h e0)) r with Some x, Some xs => Some (x :: xs) | _, _ => None end).
  rewrite IH. reflexivity.
Qed.

Theorem CX_slice_generic (f : fd) (k : fkind) (d : ascii) t :
  has_delim f = true -> delim f = [d] -> d <> " "%char ->
  decode_kind f (KSlice k) t = option_map XList (mapM_opt (decode_kind f k) (L10.decode_list d (in_set (strip f)) t)).
Proof.
  intros Hd Ed Nd. cbn [decode_kind]. rewrite Hd, Ed.
  assert (E1 : CX.seq [d] [] = false) by (unfold CX.seq, D3.seq; destruct (list_eq_dec ascii_dec [d] []); [discriminate|reflexivity]).
  rewrite E1. cbn [negb andb].
  assert (E2 : CX.seq [d] (lit " ") = false).
  { unfold CX.seq, D3.seq. destruct (list_eq_dec ascii_dec [d] (lit " ")) as [E|]; [inversion E; congruence|reflexivity]. }
  rewrite E2. cbv zeta. unfold L10.decode_list, trim_set.
  destruct (L10.trim (in_set (strip f)) t) as [|c0 t0]; [reflexivity|].
  rewrite (mapM_map (decode_kind f k) (L10.trim (in_set (strip f)))). reflexivity.
Qed.

(* ---- strings.Fields on ASCII tokens ---- *)
Definition tokc (c : ascii) : bool := (code c <? 128) && negb (GS.is_space c).
Definition token (x : str) : Prop := x <> [] /\ forallb tokc x = true.

Lemma tokc_facts c : tokc c = true -> GS.is_space c = false /\ (forall d, V11.sp2 c d = false) /\ (forall d e, V11.sp3 c d e = false).
Proof.
  unfold tokc. intros H. apply andb_true_iff in H as [L S]. apply negb_true_iff in S. apply Nat.ltb_lt in L.
  split; [exact S|]. split.
  - intros d. unfold V11.sp2. destruct (Nat.eqb_spec (code c) 194); [lia|reflexivity].
  - intros d e. unfold V11.sp3.
    destruct (Nat.eqb_spec (code c) 225); [lia|]. destruct (Nat.eqb_spec (code c) 226); [lia|]. destruct (Nat.eqb_spec (code c) 227); [lia|].
    reflexivity.
Qed.
Lemma fields_go_token : forall t cur rest, forallb tokc t = true -> fields_go cur (t ++ rest) = fields_go (rev t ++ cur) rest.
Proof.
  induction t as [|c t IH]; intros cur rest H; [reflexivity|]. cbn [forallb] in H. apply andb_true_iff in H as [Hc Ht].
  destruct (tokc_facts c Hc) as (S&S2&S3). cbn [app fields_go]. rewrite S.
  assert (Step : fields_go (c :: cur) (t ++ rest) = fields_go (rev (c :: t) ++ cur) rest).
  { rewrite (IH (c :: cur) rest Ht). cbn [rev]. now rewrite <- app_assoc. }
  destruct (t ++ rest) as [|d r1] eqn:E; [exact Step|]. rewrite S2. destruct r1 as [|e r2]; [exact Step|]. rewrite S3. exact Step.
Qed.
Lemma fields_go_space cur rest : fields_go cur (" "%char :: rest) = flush cur ++ fields_go [] rest.
Proof. reflexivity. Qed.

Lemma flush_rev t : t <> [] -> flush (rev t) = [t].
Proof.
  intros N. unfold flush. destruct (rev t) eqn:E.
  - apply (f_equal (@rev _)) in E. rewrite rev_involutive in E. now subst.
  - now rewrite <- E, rev_involutive.
Qed.

Theorem fields_three h sz nm : token h -> token sz -> token nm ->
  fields (h ++ " "%char :: sz ++ " "%char :: nm) = [h; sz; nm].
Proof.
  intros [Nh Th] [Ns Ts] [Nn Tn]. unfold fields.
  rewrite (fields_go_token h [] _ Th), app_nil_r, fields_go_space.
  rewrite (fields_go_token sz [] _ Ts), app_nil_r, fields_go_space.
  replace nm with (nm ++ []) at 1 by apply app_nil_r. rewrite (fields_go_token nm [] [] Tn), app_nil_r.
  cbn [fields_go]. now rewrite !flush_rev.
Qed.

(* one "hash size name" line of a Files / Checksums-* field, for the struct type of algorithm alg *)
Theorem hash_line alg h sz nm n : token h -> token sz -> token nm -> parse_int sz = Some n ->
  hash_parse alg (h ++ " "%char :: sz ++ " "%char :: nm) = Some (XHash alg h n nm (byhash_of alg)).
Proof. intros A B C P. unfold hash_parse. rewrite (fields_three h sz nm A B C). now rewrite P. Qed.
Print Assumptions CX_slice_generic.
Print Assumptions hash_line.

(* ---- a whole Files / Checksums-* value ---- *)
Definition row : Type := (str * str * str * Z)%type.               (* hash, size text, name, size *)
Definition row_text (r : row) : str := let '(h, sz, nm, _) := r in h ++ " "%char :: sz ++ " "%char :: nm.
Definition row_ok (r : row) : Prop := let '(h, sz, nm, n) := r in token h /\ token sz /\ token nm /\ parse_int sz = Some n.
Definition row_val (alg : str) (r : row) : xval := let '(h, _, nm, n) := r in XHash alg h n nm (byhash_of alg).

Lemma seq_true a b : CX.seq a b = true -> a = b.
Proof. unfold CX.seq, D3.seq. destruct (list_eq_dec ascii_dec a b); [auto|discriminate]. Qed.

Lemma hash_struct_kind f name alg t : struct_alg name = Some alg -> decode_kind f (KStruct name) t = hash_parse alg t.
Proof.
  unfold struct_alg. intros H.
  destruct (CX.seq name (lit "pault.ag/go/debian/control.MD5FileHash")) eqn:E1; [apply seq_true in E1; subst; inversion H; reflexivity|].
  destruct (CX.seq name (lit "pault.ag/go/debian/control.SHA1FileHash")) eqn:E2; [apply seq_true in E2; subst; inversion H; reflexivity|].
  destruct (CX.seq name (lit "pault.ag/go/debian/control.SHA256FileHash")) eqn:E3; [apply seq_true in E3; subst; inversion H; reflexivity|].
  destruct (CX.seq name (lit "pault.ag/go/debian/control.SHA512FileHash")) eqn:E4; [apply seq_true in E4; subst; inversion H; reflexivity|].
  discriminate.
Qed.

Lemma tokc_not_strip (st : ascii -> bool) : (forall c, st c = true -> GS.is_space c = true) -> forall c, tokc c = true -> st c = false.
Proof. intros Hs c Hc. destruct (st c) eqn:E; [|reflexivity]. apply Hs in E. destruct (tokc_facts c Hc) as (S&_). congruence. Qed.

Lemma free_token t : forallb tokc t = true -> GS.free GS.nl t.
Proof.
  induction t as [|c t IH]; intros H; [constructor|]. cbn [forallb] in H. apply andb_true_iff in H as [Hc Ht].
  constructor; [|now apply IH]. intros ->. destruct (tokc_facts _ Hc) as (S&_). discriminate.
Qed.

Lemma row_line_ok (st : ascii -> bool) r : (forall c, st c = true -> GS.is_space c = true) -> row_ok r -> L12.line_ok GS.nl st (row_text r).
Proof.
  destruct r as [[[h sz] nm] n]. intros Hs ([Nh Th]&[Ns Ts]&[Nn Tn]&_). cbn [row_text]. repeat split.
  - destruct h; [congruence|discriminate].
  - unfold GS.free. apply Forall_app. split; [now apply free_token|]. constructor; [discriminate|].
    apply Forall_app. split; [now apply free_token|]. constructor; [discriminate|now apply free_token].
  - destruct h as [|c h']; [congruence|]. cbn [app]. unfold L10.nolead. cbn [forallb] in Th. apply andb_true_iff in Th as [Hc _].
    now apply (tokc_not_strip st Hs).
  - unfold L10.notrail, L10.nolead. rewrite rev_app_distr. cbn [rev]. rewrite rev_app_distr. cbn [rev]. rewrite <- !app_assoc.
    destruct (rev nm) as [|c t] eqn:E; [exfalso; apply Nn; now rewrite <- (rev_involutive nm), E|]. cbn [app].
    apply (tokc_not_strip st Hs). rewrite forallb_forall in Tn. apply Tn. apply in_rev. rewrite E. now left.
Qed.

(* C10: "Files:" / "Checksums-Sha256:" ... in the real layout - stripped bytes (the newline of the multiline convention,
   the blank that starts a continuation line) in front, one "hash size name" per line, stripped bytes behind - decodes
   to the tuples in order, tagged with the algorithm of the field's own struct type *)
Theorem C10_hash_list f name alg rows w1 w2 :
  kind f = KSlice (KStruct name) -> struct_alg name = Some alg -> has_delim f = true -> delim f = [GS.nl] ->
  (forall c, in_set (strip f) c = true -> GS.is_space c = true) ->
  L10.allP (in_set (strip f)) w1 -> L10.allP (in_set (strip f)) w2 -> rows <> [] -> Forall row_ok rows ->
  decode_kind f (kind f) (w1 ++ GS.join [GS.nl] (map row_text rows) ++ w2) = Some (XList (map (row_val alg) rows)).
Proof.
  intros K A Hd Ed Hs W1 W2 NE F. rewrite K.
  rewrite (CX_slice_generic f (KStruct name) GS.nl _ Hd Ed ltac:(discriminate)).
  rewrite (L12.C10_lines_field GS.nl (in_set (strip f)) w1 (map row_text rows) w2 W1 W2).
  - assert (M : mapM_opt (decode_kind f (KStruct name)) (map row_text rows) = Some (map (row_val alg) rows)).
    { clear NE. induction F as [|r rs Hr _ IH]; [reflexivity|].
      change (mapM_opt (decode_kind f (KStruct name)) (map row_text (r :: rs))) with
        (match decode_kind f (KStruct name) (row_text r), mapM_opt (decode_kind f (KStruct name)) (map row_text rs) with
         | Some x, Some xs => Some (x :: xs) | _, _ => None end).
      rewrite IH, (hash_struct_kind f name alg _ A). destruct r as [[[h sz] nm] n]. destruct Hr as (Th&Ts&Tn&P).
      cbn [row_text row_val map]. now rewrite (hash_line alg h sz nm n Th Ts Tn P). }
    now rewrite M.
  - destruct rows; [congruence|discriminate].
  - clear NE. induction F as [|r rs Hr _ IH]; [constructor|]. constructor; [now apply row_line_ok|exact IH].
Qed.
Print Assumptions C10_hash_list.

(* instance: the DSC field Checksums-Sha256 as the REGENERATED schema describes it *)
Require Import Schema_gen.
Example dsc_sha256_rows : exists f, find_field dsc_schema (GS.s "ChecksumsSha256") = Some f /\ key f = GS.s "Checksums-Sha256" /\
  forall rows w1 w2, L10.allP (in_set (strip f)) w1 -> L10.allP (in_set (strip f)) w2 -> rows <> [] -> Forall row_ok rows ->
    decode_kind f (kind f) (w1 ++ GS.join [GS.nl] (map row_text rows) ++ w2) = Some (XList (map (row_val (lit "sha256")) rows)).
Proof.
  eexists. split; [vm_compute; reflexivity|]. split; [reflexivity|]. intros rows w1 w2 W1 W2 NE F.
  eapply C10_hash_list; try eassumption; try reflexivity.
  intros c H. pose proof (D4.by_enum (fun c => negb (in_set (lit (String "010" (String "013" (String "009" " ")))) c) || GS.is_space c) eq_refl c) as E.
  cbv beta in E. change (strip _) with (lit (String "010" (String "013" (String "009" " ")))) in H. rewrite H in E. exact E.
Qed.
