package main

import (
	"crypto/md5"
	"fmt"
	"io/ioutil"
	"os"
	"path/filepath"
	"sort"
	"strconv"
	"strings"

	"pault.ag/go/debian/control"
)

// copylinks kind n name* (dir name F content | dir name L tdir/tname)* : a real tree of sibling directories under /var/tmp in
// which names are regular files or symbolic links to other names ("../tdir/tname"); the control file (kind dsc | changes)
// lists the n names and lives in S; Copy into D.  Reports the error flag and every name of every directory with what it IS
// afterwards (Lstat: a file with its bytes, or a link with its target) - the counterpart of the model U20L.
// movelinks: the same tree, Move into D.
func init() {
	ops["copylinks"] = func(a []string) string { return uploadLinks(a, false) }
	ops["movelinks"] = func(a []string) string { return uploadLinks(a, true) }
}

func uploadLinks(a []string, move bool) string {
	{
		kind := arg(a, 0)
		n, _ := strconv.Atoi(arg(a, 1))
		names := []string{}
		for i := 0; i < n; i++ {
			names = append(names, arg(a, 2+i))
		}
		root, err := ioutil.TempDir("/var/tmp", "verif-copylinks-")
		if err != nil {
			return "harness-error"
		}
		defer os.RemoveAll(root)
		dirs := map[string]bool{"S": true, "D": true}
		os.MkdirAll(filepath.Join(root, "S"), 0755)
		os.MkdirAll(filepath.Join(root, "D"), 0755)
		var listing strings.Builder
		for _, name := range names {
			sum := fmt.Sprintf("%x", md5.Sum([]byte(name)))
			if kind == "dsc" {
				fmt.Fprintf(&listing, " %s %d %s\n", sum, len(name), name)
			} else {
				fmt.Fprintf(&listing, " %s %d misc optional %s\n", sum, len(name), name)
			}
		}
		ctlname := "x_1.0-1." + kind
		text := "Format: 1.0\nSource: x\nVersion: 1.0-1\nMaintainer: A B <a@b.c>\nFiles:\n" + listing.String()
		for i := 2 + n; i+3 < len(a); i += 4 {
			dir, name, k, payload := a[i], a[i+1], a[i+2], a[i+3]
			if !dirs[dir] {
				dirs[dir] = true
				os.MkdirAll(filepath.Join(root, dir), 0755)
			}
			if k == "L" {
				if err := os.Symlink("../"+payload, filepath.Join(root, dir, name)); err != nil {
					return "harness-error"
				}
			} else if err := ioutil.WriteFile(filepath.Join(root, dir, name), []byte(payload), 0644); err != nil {
				return "harness-error"
			}
		}
		if err := ioutil.WriteFile(filepath.Join(root, "S", ctlname), []byte(text), 0644); err != nil {
			return "harness-error"
		}
		var run func() error
		if kind == "dsc" {
			d, err := control.ParseDscFile(filepath.Join(root, "S", ctlname))
			if err != nil {
				return "parse-error"
			}
			run = func() error { return d.Copy(filepath.Join(root, "D")) }
			if move {
				run = func() error { return d.Move(filepath.Join(root, "D")) }
			}
		} else {
			c, err := control.ParseChangesFile(filepath.Join(root, "S", ctlname))
			if err != nil {
				return "parse-error"
			}
			run = func() error { return c.Copy(filepath.Join(root, "D")) }
			if move {
				run = func() error { return c.Move(filepath.Join(root, "D")) }
			}
		}
		res := "ok"
		if e := run(); e != nil {
			res = "err"
		}
		entries := []string{}
		for dir := range dirs {
			fis, _ := ioutil.ReadDir(filepath.Join(root, dir))
			for _, fi := range fis {
				p := filepath.Join(root, dir, fi.Name())
				if fi.Mode()&os.ModeSymlink != 0 {
					t, _ := os.Readlink(p)
					entries = append(entries, "( "+hx(dir+"/"+fi.Name())+" L "+hx(strings.TrimPrefix(t, "../"))+" )")
				} else if fi.Mode().IsRegular() {
					b, _ := ioutil.ReadFile(p)
					entries = append(entries, "( "+hx(dir+"/"+fi.Name())+" F "+hx(string(b))+" )")
				} else {
					entries = append(entries, "( "+hx(dir+"/"+fi.Name())+" ? )")
				}
			}
		}
		sort.Strings(entries)
		return res + " " + showList(entries) + " " + hx(text)
	}
}
