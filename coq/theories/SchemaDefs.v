From Coq Require Export List Ascii String Bool Arith.
Export ListNotations.
Definition str := list ascii.
Definition bytes (l : list nat) : str := map ascii_of_nat l.
Definition s (x : string) : str := list_ascii_of_string x.
Definition str_eqb (a b : str) : bool := if list_eq_dec ascii_dec a b then true else false.

Inductive fkind := KString | KInt | KUint | KBool | KPtr (k : fkind) | KSlice (k : fkind) | KStruct (name : str) | KOther.
Record fdesc := { go_name : str; key : str; required : bool; multiline : bool; has_delim : bool;
                  delim : str; strip : str; exported : bool; kind : fkind }.
Definition schema := list fdesc.

(* what a document kind says about a real Debian field *)
Inductive syntax :=
  | Scalar | VersionF | ArchList | ArchOne | DepF | IntF | BoolF
  | CommaList                      (* "a, b,\n c": comma separated, possibly folded *)
  | SpaceList                      (* "a b\n c": blank separated, possibly folded *)
  | HashLines (alg : str)          (* one "hash size name" (or "name hash") entry per line *)
  | ChangesFiles.                  (* .changes Files: "md5 size section priority name" per line *)
Record row := { debian_field : str; syn : syntax; go_field : str }.

Definition find_field (sch : schema) (g : str) : option fdesc := find (fun f => str_eqb (go_name f) g) sch.
Definition has_all (needed cs : str) : bool := forallb (fun c => existsb (fun d => if ascii_dec c d then true else false) cs) needed.
Definition ws4 : str := bytes [10; 13; 9; 32].
Definition pkg (x : string) : str := s x.

Definition row_ok (sch : schema) (r : row) : bool :=
  match find_field sch (go_field r) with
  | None => false
  | Some f =>
      exported f && str_eqb (key f) (debian_field r) &&
      match syn r, kind f with
      | Scalar, KString => true
      | IntF, KInt => true
      | BoolF, KBool => true
      | VersionF, KStruct n => str_eqb n (pkg "pault.ag/go/debian/version.Version")
      | DepF, KStruct n => str_eqb n (pkg "pault.ag/go/debian/dependency.Dependency")
      | ArchOne, KStruct n => str_eqb n (pkg "pault.ag/go/debian/dependency.Arch")
      | ArchList, KSlice (KStruct n) =>
          str_eqb n (pkg "pault.ag/go/debian/dependency.Arch") && (negb (has_delim f) || str_eqb (delim f) (bytes [32]))
      | CommaList, KSlice KString => str_eqb (delim f) (bytes [44]) && has_all ws4 (strip f)
      | SpaceList, KSlice KString => negb (has_delim f) || str_eqb (delim f) (bytes [32])
      | HashLines alg, KSlice (KStruct n) =>
          str_eqb (delim f) (bytes [10]) && has_all ws4 (strip f) &&
          str_eqb n (pkg "pault.ag/go/debian/control." ++ alg ++ pkg "FileHash")
      | ChangesFiles, KSlice (KStruct n) =>
          str_eqb (delim f) (bytes [10]) && has_all ws4 (strip f) &&
          str_eqb n (pkg "pault.ag/go/debian/control.FileListChangesFileHash")
      | _, _ => false
      end
  end.
Definition schema_ok (sch : schema) (tbl : list row) : bool := forallb (row_ok sch) tbl.
Definition failing (sch : schema) (tbl : list row) : list string :=
  map (fun r => string_of_list_ascii (debian_field r)) (filter (fun r => negb (row_ok sch r)) tbl).

Definition R (d : string) (sy : syntax) (g : string) : row := {| debian_field := s d; syn := sy; go_field := s g |}.
Definition dsc_table : list row := [
  R "Format" Scalar "Format"; R "Source" Scalar "Source"; R "Binary" CommaList "Binaries";
  R "Architecture" ArchList "Architectures"; R "Version" VersionF "Version"; R "Maintainer" Scalar "Maintainer";
  R "Uploaders" CommaList "Uploaders"; R "Homepage" Scalar "Homepage"; R "Standards-Version" Scalar "StandardsVersion";
  R "Build-Depends" DepF "BuildDepends"; R "Build-Depends-Arch" DepF "BuildDependsArch"; R "Build-Depends-Indep" DepF "BuildDependsIndep";
  R "Checksums-Sha1" (HashLines (s "SHA1")) "ChecksumsSha1"; R "Checksums-Sha256" (HashLines (s "SHA256")) "ChecksumsSha256";
  R "Files" (HashLines (s "MD5")) "Files" ].
Definition source_index_table : list row := [
  R "Package" Scalar "Package"; R "Binary" CommaList "Binaries"; R "Version" VersionF "Version";
  R "Maintainer" Scalar "Maintainer"; R "Architecture" ArchList "Architecture";
  R "Standards-Version" Scalar "StandardsVersion"; R "Format" Scalar "Format"; R "Files" (HashLines (s "MD5")) "Files";
  R "Checksums-Sha256" (HashLines (s "SHA256")) "ChecksumsSha256"; R "Directory" Scalar "Directory" ].
Definition binary_index_table : list row := [
  R "Package" Scalar "Package"; R "Version" VersionF "Version"; R "Installed-Size" IntF "InstalledSize";
  R "Architecture" ArchOne "Architecture"; R "Tag" CommaList "Tags"; R "Filename" Scalar "Filename"; R "Size" IntF "Size";
  R "SHA256" Scalar "SHA256" ].
Definition best_checksums_table : list row := [
  R "Checksums-Sha256" (HashLines (s "SHA256")) "ChecksumsSha256"; R "Checksums-Sha512" (HashLines (s "SHA512")) "ChecksumsSha512" ].

Definition changes_table : list row := [
  R "Format" Scalar "Format"; R "Source" Scalar "Source"; R "Binary" SpaceList "Binaries";
  R "Architecture" ArchList "Architectures"; R "Version" VersionF "Version"; R "Distribution" Scalar "Distribution";
  R "Urgency" Scalar "Urgency"; R "Maintainer" Scalar "Maintainer"; R "Changed-By" Scalar "ChangedBy";
  R "Closes" SpaceList "Closes"; R "Changes" Scalar "Changes";
  R "Checksums-Sha1" (HashLines (s "SHA1")) "ChecksumsSha1"; R "Checksums-Sha256" (HashLines (s "SHA256")) "ChecksumsSha256";
  R "Files" ChangesFiles "Files" ].
Definition source_par_table : list row := [
  R "Source" Scalar "Source"; R "Maintainer" Scalar "Maintainer"; R "Uploaders" CommaList "Uploaders";
  R "Section" Scalar "Section"; R "Priority" Scalar "Priority";
  R "Build-Depends" DepF "BuildDepends"; R "Build-Depends-Indep" DepF "BuildDependsIndep";
  R "Build-Conflicts" DepF "BuildConflicts"; R "Build-Conflicts-Indep" DepF "BuildConflictsIndep" ].
Definition binary_par_table : list row := [
  R "Package" Scalar "Package"; R "Architecture" ArchList "Architectures"; R "Section" Scalar "Section";
  R "Priority" Scalar "Priority"; R "Essential" BoolF "Essential"; R "Description" Scalar "Description";
  R "Depends" DepF "Depends"; R "Recommends" DepF "Recommends"; R "Suggests" DepF "Suggests"; R "Enhances" DepF "Enhances";
  R "Pre-Depends" DepF "PreDepends"; R "Breaks" DepF "Breaks"; R "Conflicts" DepF "Conflicts"; R "Replaces" DepF "Replaces";
  R "Built-Using" DepF "BuiltUsing" ].
Definition deb_control_table : list row := [
  R "Package" Scalar "Package"; R "Source" Scalar "Source"; R "Version" VersionF "Version";
  R "Architecture" ArchOne "Architecture"; R "Maintainer" Scalar "Maintainer"; R "Installed-Size" IntF "InstalledSize";
  R "Multi-Arch" Scalar "MultiArch"; R "Depends" DepF "Depends"; R "Recommends" DepF "Recommends"; R "Suggests" DepF "Suggests";
  R "Breaks" DepF "Breaks"; R "Replaces" DepF "Replaces"; R "Built-Using" DepF "BuiltUsing";
  R "Section" Scalar "Section"; R "Priority" Scalar "Priority"; R "Homepage" Scalar "Homepage"; R "Description" Scalar "Description" ].
(* the required fields of a .deb control file *)
Definition required_ok (sch : schema) (names : list str) : bool :=
  forallb (fun g => match find_field sch g with Some f => required f | None => false end) names.
