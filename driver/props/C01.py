"""C01 - version.Compare orders versions exactly as dpkg does (and C02 shares the streams)."""
import itertools
import subprocess
import gen

SYMS = [b"0", b"1", b"9", b"a", b"Z", b"~", b"+", b".", b"-", b":"]
ALPHA = [bytes([c]) for c in b"0123456789abcxyzABZ.+~:-"]
EPOCHS = [0, 1, 2, 2**31, 2**63 - 1, 2**63, 2**64 - 1]


def vsign(r):
    return r


def rand_version_part(rng, maxlen=40):
    """biased to long digit runs, leading zeros, shared prefixes"""
    out = b""
    while len(out) < maxlen and rng.random() < 0.85:
        k = rng.randrange(6)
        if k == 0:
            out += b"0" * rng.randrange(1, 4)
        elif k == 1:
            out += str(rng.randrange(10 ** rng.randrange(1, 25))).encode()
        elif k == 2:
            out += rng.choice([b"~", b"+", b".", b"-", b":", b"~~", b"+b", b".0", b"~rc", b"a", b"Z", b"beta"])
        elif k == 3:
            out += rng.choice(ALPHA)
        elif k == 4:
            out += rng.choice([b"1.0", b"2.3.4", b"10", b"09", b"1:2", b"0.0"])
        else:
            out += bytes([rng.choice(b"abcdefgxyzABCXYZ")])
    return out[:maxlen]


def pair_cases(chk):
    rng = chk.rng
    cases = []
    # exhaustive: all pairs of words of length <= 2 (quick) / 3 (thorough sampled) over 10 symbols, as upstream parts
    ws = gen.words(SYMS, 2)
    revs = [b"", b"0", b"1", b"~"]
    for a in ws:
        for b in ws:
            cases.append(("vcmp", [0, a, b"", 0, b, b""]))
    streams = {"exhaustive-len2": len(cases)}
    # exhaustive: the order of every pair of characters of the whole version alphabet (and end of string), after a
    # common prefix, in the upstream part and in the revision
    full = [b""] + [bytes([c]) for c in b"0123456789abcdefghijklmnopqrstuvwxyzABCDEFGHIJKLMNOPQRSTUVWXYZ.+~-:"]
    n0 = len(cases)
    for x in full:
        for y in full:
            cases.append(("vcmp", [0, b"1.0" + x, b"", 0, b"1.0" + y, b""]))
            if x not in (b"-", b":") and y not in (b"-", b":"):
                cases.append(("vcmp", [0, b"1", b"1" + x, 0, b"1", b"1" + y]))
                cases.append(("vcmp", [0, b"1", x + b"1", 0, b"1", y + b"1"]))     # the character in front: "+1" is not 1
    streams["exhaustive-character-pairs"] = len(cases) - n0
    ws3 = gen.words(SYMS, 3)
    k = chk.n(30000, 600000)
    for _ in range(k):
        a, b = rng.choice(ws3), rng.choice(ws3)
        ra, rb = rng.choice(revs), rng.choice(revs)
        cases.append(("vcmp", [rng.choice(EPOCHS), a, ra, rng.choice(EPOCHS) if rng.random() < 0.3 else 0, b, rb]))
    streams["sampled-len3-with-revisions-and-epochs"] = k
    k = chk.n(20000, 400000)
    for _ in range(k):
        a = rand_version_part(rng)
        if rng.random() < 0.5:
            b = gen.mutate(rng, a, ALPHA)
        else:
            b = rand_version_part(rng)
        ra = rand_version_part(rng, 8).replace(b"-", b"").replace(b":", b"")
        rb = ra if rng.random() < 0.5 else gen.mutate(rng, ra, ALPHA)
        ea = rng.choice(EPOCHS)
        eb = ea if rng.random() < 0.7 else rng.choice(EPOCHS)
        cases.append(("vcmp", [ea, a, ra, eb, b, rb]))
    streams["random-long"] = k
    return cases, streams


def classify(case, impl, model):
    return {"class": "sign-differs-from-policy-order",
            "explanation": "sign of version.Compare differs from the model, which is proved equal to the Policy order"}


def run(chk):
    cases, streams = pair_cases(chk)
    impl = chk.run_impl(cases)
    model = chk.run_model(cases)
    chk.compare("compare-sign", cases, impl, model, classify=classify, nontrivial=lambda c, r: c[1][1] != c[1][4] or c[1][2] != c[1][5])
    chk.extra["pair_streams"] = streams
    # the spec itself (policy order, key order) evaluated by the extracted spec functions: must agree with
    # the implementation directly (this is the property predicate, independent of the model of the loops)
    sub = cases[::7]
    spec = chk.run_model([("vkey", c[1]) for c in sub])
    bad = 0
    for c, i, sp in zip(sub, impl[::7], spec):
        if i != sp:
            bad += 1
            chk.violate({"kind": "property", "case": __import__("lib").show_case(c), "impl_sign": i, "policy_sign": sp,
                         "explanation": "sign(Compare(a,b)) differs from the Debian Policy order"})
    chk.extra["spec_checked_pairs"] = len(sub)
    # epochs compare NUMERICALLY on every platform: where uint has 32 bits (harness built for GOARCH=386) two version texts whose
    # epochs straddle 2^32 are either refused by Parse or ordered by their epochs - never by the epochs modulo 2^32
    import lib
    exe386 = lib.build_harness_386()
    if exe386 is None:
        chk.notes.append("no 32-bit harness could be built or run here: the GOARCH=386 epoch stream was skipped")
    else:
        rng = chk.rng
        tc = []
        for _ in range(chk.n(600, 12000)):
            ea = rng.choice([0, 1, 2, 2**31, 2**32 - 1, 2**32, 2**32 + 1, 2**32 + 2, 2**33, rng.randrange(2**34)])
            eb = rng.choice([0, 1, 2, 3, 2**31, 2**32 - 1, 2**32, 2**32 + 1, rng.randrange(2**34)])
            tc.append(("vcmptext", [b"%d:1.0" % ea, b"%d:1.0" % eb]))
        ti = lib.run_lines(exe386, tc)
        chk.record("epochs-on-a-32-bit-platform", tc, ti, lambda c, r: r != "rejected")
        for c, r in zip(tc, ti):
            ea, eb = int(c[1][0].split(b":")[0]), int(c[1][1].split(b":")[0])
            want = str((ea > eb) - (ea < eb))
            if r != "rejected" and r != want:
                chk.violate({"kind": "property", "case": lib.show_case(c), "impl_sign": r, "policy_sign": want, "platform": "GOARCH=386",
                             "explanation": "on a platform with a 32-bit uint two versions were not ordered by their epochs (an epoch was reduced modulo 2^32)"})
            if r == "rejected" and ea < 2**32 and eb < 2**32:
                chk.violate({"kind": "property", "case": lib.show_case(c), "impl_sign": r, "platform": "GOARCH=386",
                             "explanation": "a version whose epoch fits the Epoch field was refused"})
    # Slice.Less
    sub = cases[::11]
    lcases = [("vless", c[1]) for c in sub]
    li, lm = chk.run_both(lcases)
    chk.compare("slice-less", lcases, li, lm, nontrivial=lambda c, r: r == "T")
    # the order as its consumers see it: VersionRelation.SatisfiedBy over the same pairs (operators << = >>), on relations that
    # came out of the parser and were then given their operator and number by the caller (the exported fields are what
    # counts) - the answers follow the sign of the comparison
    sc, sw = [], []
    for c, sgn in list(zip(cases, impl))[::13]:
        ea, a, ra, eb, b, rb = c[1]
        if ea != 0 or sgn not in ("-1", "0", "1") or b" " in a + ra or not a or not a[:1].isdigit():
            continue
        num = a + (b"-" + ra if ra or b"-" in a else b"")
        if b":" in a:
            num = b"0:" + num
        for o, pred in ((b"<<", lambda q: q > 0), (b"=", lambda q: q == 0), (b">>", lambda q: q < 0)):
            sc.append(("vsatparsed", [o, num, eb, b, rb])); sw.append(" ".join(["T" if pred(int(sgn)) else "F"] * 4))
    si = chk.run_impl(sc)
    ref = chk.run_impl([("vsat", c[1]) for c in sc])
    chk.record("satisfied-by-on-parsed-relations", sc, si, lambda c, r: "T" in r)
    for c, i, w, r in zip(sc, si, sw, ref):
        # the number must be a version the parser accepts; where SatisfiedBy on a literal relation says F for all three operators
        # it is not, and nothing is claimed
        if i != w and i != " ".join([r] * 4):
            chk.violate({"kind": "property", "case": __import__("lib").show_case(c), "impl": i, "expected": w, "literal_relation": r,
                         "explanation": "SatisfiedBy on a relation that came out of the parser and was then given another operator and number does not follow the order of the two versions"})
        elif i != " ".join([r] * 4):
            chk.violate({"kind": "property", "case": __import__("lib").show_case(c), "impl": i, "literal_relation": r,
                         "explanation": "SatisfiedBy answers differently for a parsed-then-edited relation (or a copy of it) than for a literal relation with the same operator and number"})
    # property instances named in the statement
    named = [("vcmp", [0, b"1.0~rc1", b"", 0, b"1.0", b""]), ("vcmp", [0, b"1.0", b"", 0, b"1.0+b1", b""]),
             ("vcmp", [0, b"1.0", b"", 0, b"1.0", b"0"]), ("vcmp", [3, b"1.0", b"", 3, b"1.0", b"0"])]
    ni = chk.run_impl(named)
    for c, r, want in zip(named, ni, ["-1", "-1", "0", "0"]):
        if r != want:
            chk.violate({"kind": "property", "case": __import__("lib").show_case(c), "impl_sign": r, "expected": want})
    chk.record("named-instances", named, ni, lambda c, r: True)
    # thorough: dpkg --compare-versions validates the SPEC (not the code)
    if chk.tier == "thorough":
        dpkg_crosscheck(chk, cases)
    chk.assumptions += ["strings contain no NUL byte (outside the parser's alphabet; C02_nul_refuted shows why)",
                        "Go uint epochs are below 2^64; the model uses unbounded N"]


def dpkg_crosscheck(chk, cases):
    import shutil
    if not shutil.which("dpkg"):
        chk.notes.append("dpkg not available: spec cross-check skipped")
        return
    import re
    ok = re.compile(rb"^[0-9][A-Za-z0-9.+~:-]*$")
    pool = [c for c in cases if ok.match(c[1][1]) and ok.match(c[1][4]) and b":" not in c[1][1] + c[1][4]
            and b"-" not in c[1][1] + c[1][4] and c[1][0] < 2**31 and c[1][3] < 2**31]
    pool = chk.rng.sample(pool, min(len(pool), 3000))
    spec = chk.run_model([("vkey", c[1]) for c in pool])
    diff = 0
    for c, sp in zip(pool, spec):
        e1, u1, r1, e2, u2, r2 = c[1]
        def txt(e, u, r):
            t = u.decode()
            if r:
                t += "-" + r.decode()
            return "%d:%s" % (e, t)
        a, b = txt(e1, u1, r1), txt(e2, u2, r2)
        op = {"-1": "lt", "0": "eq", "1": "gt"}[sp]
        rc = subprocess.run(["dpkg", "--compare-versions", a, op, b], stderr=subprocess.DEVNULL).returncode
        if rc != 0:
            diff += 1
            chk.notes.append("SPEC differs from dpkg on %s vs %s (spec says %s)" % (a, b, op))
    chk.extra["dpkg_spec_crosscheck"] = {"pairs": len(pool), "differences": diff}


def replay(chk, d):
    import lib
    c = lib.case_from_replay(d)
    if d.get("platform") == "GOARCH=386":
        exe = lib.build_harness_386()
        i = lib.run_lines(exe, [c])[0] if exe else "no-32-bit-harness"
        print("impl (GOARCH=386):", i, "policy:", d.get("policy_sign"))
        return 1 if i not in ("rejected", d.get("policy_sign")) else 0
    i = chk.run_impl([c])[0]
    sp = chk.run_model([("vkey", c[1])])[0]
    print("impl:", i, "policy:", sp)
    if i != sp:
        return 1
    return 0
