"""C17 - changelog parsing returns every entry faithfully, or an error."""
import datetime
import email.utils
import lib
import gen
from props.C03 import rand_triple, renderings

DAYS = ["Mon", "Tue", "Wed", "Thu", "Fri", "Sat", "Sun"]
MONTHS = ["Jan", "Feb", "Mar", "Apr", "May", "Jun", "Jul", "Aug", "Sep", "Oct", "Nov", "Dec"]
EDIT = [b"\n", b" ", b"  ", b"(", b")", b";", b",", b"=", b"-", b"--", b" -- ", b"a", b"1", b":", b"+", b"\t", b"\r"]


def hx(b):
    return "x" + b.hex()


def show_list(items):
    return "[]" if not items else "[ " + " ".join(items) + " ]"


def rand_date(rng):
    y = rng.randrange(1990, 2040); mo = rng.randrange(1, 13); d = rng.randrange(1, 29)
    h, mi, s = rng.randrange(24), rng.randrange(60), rng.randrange(60)
    zh, zm = rng.randrange(0, 13), rng.choice([0, 0, 30, 45])
    sign = rng.choice([1, -1])
    off = sign * (zh * 3600 + zm * 60)
    tz = datetime.timezone(datetime.timedelta(seconds=off))
    dt = datetime.datetime(y, mo, d, h, mi, s, tzinfo=tz)
    # Policy 4.4: "dd" is a one- or two-digit day of the month ("Mon, 2 Jan 2006", also written space-padded "Mon,  2 Jan 2006")
    dd = ("%02d" % d) if d >= 10 else rng.choice(["%02d" % d, "%d" % d, " %d" % d])
    text = "%s, %s %s %04d %02d:%02d:%02d %s%02d%02d" % (DAYS[dt.weekday()], dd, MONTHS[mo - 1], y, h, mi, s, "+" if sign > 0 else "-", zh, zm)
    return text.encode(), int(dt.timestamp()), off


def rand_entry(rng):
    e, up, rv = rand_triple(rng)
    if e >= 2**62:
        e = 1
    vtext = rng.choice(renderings(rng, e, up, rv))
    if rng.random() < 0.25:
        # re-uploads with an epoch bump (and back): the same upstream-revision text with several epochs in one changelog
        e, up, rv = rng.choice([0, 0, 1, 2, 7]), rng.choice([b"3.1", b"2.0~rc1"]), rng.choice([b"1", b""])
        body_ = up + (b"-" + rv if rv else b"")
        vtext = body_ if e == 0 and rng.random() < 0.7 else str(e).encode() + b":" + body_
    args = {}
    for _ in range(rng.randrange(0, 4)):          # "zero or more keyword=value items"
        args[rng.choice([b"urgency", b"binary-only", b"x-opt", b"a", b"Urgency", b"X-Opt"])] = rng.choice([b"low", b"medium", b"yes", b"high (security)", b"1", b"HIGH", b"Medium", b"YES", b"Mixed-Case_9"])
    body = []
    for _ in range(rng.randrange(0, 6)):
        body.append(rng.choice([b"", b"  * Fix a bug.", b"    continued; with (parens)", b"  [ Someone ]", b"  * Closes: #12345 -- not a trailer",
                                b" .", b"  * x=y, z", b"   -- indented dashes"]))
    date, unix, off = rand_date(rng)
    return {"source": rng.choice([b"hello", b"lib-x2", b"g++-12"]), "vtext": vtext, "v": (e, up, rv),
            "dists": rng.choice([b"unstable", b"unstable testing", b"UNRELEASED", b"bookworm-security"]),
            "args": args, "body": body, "who": rng.choice([b"A B <a@b.c>", b"Jos\xc3\xa9 <j@x.org>", b"x <y>"]),
            "date": date, "unix": unix, "off": off, "blanks": rng.randrange(0, 3)}


def render(es, rng, final_newline=True, trailing_blanks=0):
    lines = []
    for e in es:
        # separator lines: empty, or white space only (a blank, a tab)
        lines += [rng.choice([b"", b"", b" ", b"\t", b"  "]) for _ in range(e["blanks"])]
        items = list(e["args"].items())
        opts = b",".join(b" " + k + b"=" + v for k, v in items)
        if rng.random() < 0.15:
            opts += rng.choice([b",", b", ", b" "])      # a comma (or a blank) behind the last item is not an item
        lines.append(e["source"] + b" (" + e["vtext"] + b") " + e["dists"] + b";" + opts)
        lines += e["body"]
        lines.append(b" -- " + e["who"] + b"  " + e["date"])
    lines += [b""] * trailing_blanks
    text = b"\n".join(lines)
    if final_newline and lines:
        text += b"\n"
    return text


def show_entry(e):
    args = show_list(["( %s %s )" % (hx(k), hx(v)) for k, v in sorted(e["args"].items())])
    body = b"".join(l + b"\n" for l in e["body"])
    ep, up, rv = e["v"]
    return "( %s %d %s %s %s %s %s %s %d/%d )" % (hx(e["source"]), ep, hx(up), hx(rv), hx(e["dists"]), args, hx(body), hx(e["who"]), e["unix"], e["off"])


def expected(es):
    return "ok " + show_list([show_entry(e) for e in es])


def headers(text):
    n = 0
    lines = text.split(b"\n")
    if lines and lines[-1] == b"":
        lines.pop()
    for l in lines:
        if not l.startswith(b" ") and l.strip(b"\n\r\t ") != b"":
            n += 1
    return n


def with_oracle(chk, texts):
    """cases for the changelog model.  The trailer date used to be an oracle (time.Parse asked through the harness and the
    answers attached to every case); since DATE.v the model computes it itself (op clparse1), and time.Parse is compared
    with that model in a stream of its own (rand_when)."""
    return [("clparse1", [t]) for t in texts], {}


def rand_when(rng):
    """a trailer date: well-formed (one- or two-digit day, optional fraction, any case of the names), at the edges of every
    range (day 0 / 32, hour 24, minute / second 60, offsets up to 24:60 and beyond, leap days, year 0000 and 9999), and with
    one or two byte edits"""
    y = rng.choice([0, 1, 1969, 1970, 1999, 2000, 2004, 2023, 2024, 2100, 9999, rng.randrange(10000)]); mo = rng.randrange(1, 13)
    d = rng.choice([0, 1, 2, 9, 10, 28, 29, 30, 31, 32, rng.randrange(1, 32)])
    h = rng.choice([0, 5, 9, 10, 23, 24, rng.randrange(25)]); mi = rng.choice([0, 59, 60, rng.randrange(61)]); sec = rng.choice([0, 59, 60, rng.randrange(61)])
    zh = rng.choice([0, 1, 5, 12, 14, 23, 24, 25, rng.randrange(26)]); zm = rng.choice([0, 30, 45, 59, 60, 61])
    dd = rng.choice(["%02d" % d, "%d" % d, " %d" % d]); hh = rng.choice(["%02d" % h, "%d" % h])
    frac = rng.choice(["", "", "", ".5", ",25", ".123456789", ".1234567890123", ".", " .5"])
    t = "%s, %s %s %04d %s:%02d:%02d%s %s%02d%02d" % (rng.choice(DAYS), dd, rng.choice(MONTHS) if rng.random() < 0.1 else MONTHS[mo - 1], y, hh, mi, sec, frac,
                                                   rng.choice("+-+-+- "), zh, zm)
    r = rng.random()
    if r < 0.15:
        t = t.swapcase() if rng.random() < 0.5 else t.lower()
    b = bytearray(t.encode())
    if r > 0.6:
        for _ in range(rng.choice([1, 1, 2])):
            k = rng.randrange(len(b) + 1); op = rng.randrange(3)
            if op == 0 and b:
                b[k % len(b)] = rng.choice(b" ,:+-0123456789AaMmJjZ.\t\n")
            elif op == 1 and b:
                del b[k % len(b)]
            else:
                b.insert(k, rng.choice(b" ,:+-0123456789aM."))
    return bytes(b)


def count_entries(res):
    return res.count("/") if res.startswith("ok") else None


def run(chk):
    rng = chk.rng
    # 1. changelogs from the entry-list model: the model of the changelog is the oracle
    docs = []
    for _ in range(chk.n(1500, 30000)):
        es = [rand_entry(rng) for _ in range(rng.randrange(1, 6))]
        docs.append((es, render(es, rng, final_newline=rng.random() < 0.7, trailing_blanks=rng.randrange(0, 3))))
    texts = [t for _, t in docs]
    mc, ans = with_oracle(chk, texts)
    impl = chk.run_impl([("clparse", [t]) for t in texts])
    impl_docs = list(impl)
    model = chk.run_model(mc)
    chk.compare("model-changelogs", mc, impl, model)
    for (es, t), i in zip(docs, impl):
        w = expected(es)
        if i != w:
            chk.violate({"kind": "property", "case": lib.show_case(("clparse", [t])), "impl": i[:2000], "expected": w[:2000],
                         "explanation": "a dpkg-format changelog was not parsed into its entries (source, version, distributions, options, text, maintainer, timestamp and zone)"})
    # the same changelogs with CR LF line ends: one entry per block all the same (the CR of a separator line is white space)
    cc = [("clparse", [t.replace(b"\n", b"\r\n")]) for _, t in docs[::6]]
    ci = chk.run_impl(cc)
    chk.record("cr-lf-line-ends", cc, ci)
    for c, r, (es, t) in zip(cc, ci, docs[::6]):
        if count_entries(r) != len(es):
            chk.violate({"kind": "property", "case": lib.show_case(c), "impl": r[:600], "entries_written": len(es),
                         "explanation": "a changelog with CR LF line ends was not parsed into one entry per block"})
    # the other entry points: ParseFile on a real file, ParseOne / ParseFileOne for the first entry
    vc = [("clvariants", [t]) for t in texts[::4]]
    vi = chk.run_impl(vc)
    chk.record("entry-point-variants", vc, vi, lambda c, r: r == "same")
    for c, r in zip(vc, vi):
        if r != "same":
            chk.violate({"kind": "property", "case": lib.show_case(c), "impl": r[:1500],
                         "explanation": "ParseFile / ParseOne / ParseFileOne do not return the entries that Parse returns for the same changelog"})
    # ParseFile / ParseFileOne on a named pipe (a file that can be read once and cannot seek): the entries Parse returns
    pc = [("clfifo", [t]) for t in texts[::max(1, len(texts) // chk.n(120, 1200))] if t]
    pi_ = chk.run_impl(pc)
    chk.record("parse-file-on-a-fifo", pc, pi_, lambda c, r: r == "same")
    for c, r in zip(pc, pi_):
        if r != "same":
            chk.violate({"kind": "property", "case": lib.show_case(c), "impl": r[:800],
                         "explanation": "ParseFile / ParseFileOne on a named pipe do not return the entries Parse returns for the same bytes"})
    # the caller's own loop: ParseOne again and again on one bufio.Reader until io.EOF gives what Parse gives - on whole
    # changelogs and on every kind of damaged one (an error, never a shortened list)
    lt = texts[::3]
    lref = impl_docs[::3]
    lc = [("clloop", [t]) for t in lt]
    li = chk.run_impl(lc)
    chk.record("parse-one-loop", lc, li)
    for c, r, w in zip(lc, li, lref):
        if r != w:
            chk.violate({"kind": "property", "case": lib.show_case(c), "impl": r[:800], "parse": w[:800],
                         "explanation": "a loop of ParseOne over one reader does not return the entries Parse returns"})
    # the source: how the bytes are chunked underneath must not matter - and neither where a 4096-byte buffer fill ends:
    # changelogs of several buffer fills whose first entry is padded so that the entry boundary sweeps over the fill
    # boundary (the whole list must come back: never a silently shortened one)
    stexts = list(texts[::max(1, len(texts) // chk.n(200, 2000))])
    es3 = [rand_entry(rng) for _ in range(3)]
    base = render(es3, rng, final_newline=True, trailing_blanks=0)
    first_len = len(render(es3[:1], rng, final_newline=True, trailing_blanks=0))
    padded = []
    for target in list(range(4096 - 3, 4096 + 4)) + list(range(8192 - 2, 8192 + 3)):
        pad = target - first_len - len(b"  * \n")
        if pad > 0:
            # one more change line of the right length in the first entry, before its trailer
            k = base.index(b"\n -- ")
            padded.append(base[:k] + b"\n  * " + b"p" * pad + base[k:])
    pref = chk.run_impl([("clparse", [t]) for t in padded])
    for t, r in zip(padded, pref):
        if count_entries(r) != 3:
            chk.violate({"kind": "property", "case": lib.show_case(("clparse", [t[:200] + b"...<%d bytes>" % len(t)])), "impl": r[:400],
                         "explanation": "a changelog of three entries whose first entry ends near a 4096-byte boundary did not come back as three entries"})
    stexts += padded
    sref = chk.run_impl([("clparse", [t]) for t in stexts])
    for variant in (b"onebyte", b"half", b"dataerr", b"chunk7", b"lines", b"bufio16"):
        sc = [("clsrc", [variant, t]) for t in stexts]
        si = chk.run_impl(sc)
        chk.record("source-" + variant.decode(), sc, si)
        for c, r, w in zip(sc, si, sref):
            if r != w:
                chk.violate({"kind": "property", "case": lib.show_case(("clsrc", [variant, c[1][1][:300] + (b"...<%d bytes>" % len(c[1][1]) if len(c[1][1]) > 300 else b"")])),
                             "impl": r[:600], "plain_reader": w[:600],
                             "explanation": "the same changelog read through a source that delivers its bytes in other chunks (%s) gives other entries (or a shortened list)" % variant.decode()})
    # the trailer date: time.Parse with the library's layout against its model DATE.parse_when (instant and zone offset, or
    # refusal), on the dates of the generated changelogs and on a stream of edge and mutated dates
    dc = [("tparse", [e["date"]]) for es, _ in docs for e in es][:chk.n(3000, 30000)]
    dc += [("tparse", [rand_when(rng)]) for _ in range(chk.n(20000, 400000))]
    di, dm = chk.run_both(dc)
    chk.compare("trailer-dates", dc, di, dm)
    ans = {c[1][0]: r for c, r in zip(dc, di)}
    # ... and against Python's RFC 2822 parser (supporting evidence)
    bad = 0
    for w, a in list(ans.items())[:2000]:
        try:
            dt = email.utils.parsedate_to_datetime(w.decode())
            if a != "err" and (int(dt.timestamp()), int(dt.utcoffset().total_seconds())) != tuple(int(x) for x in a.split("/")):
                bad += 1
        except Exception:
            pass
    chk.extra["date_oracle_vs_python_email_utils"] = {"checked": min(len(ans), 2000), "differences": bad}
    # 2. every truncation point
    cut = []
    for es, t in rng.sample(docs, min(len(docs), chk.n(25, 300))):
        if len(t) > 700:
            continue
        for k in range(len(t) + 1):
            cut.append((es, t[:k]))
    texts = [t for _, t in cut]
    mc, _ = with_oracle(chk, texts)
    impl = chk.run_impl([("clparse", [t]) for t in texts])
    model = chk.run_model(mc)
    chk.compare("truncation-points", mc, impl, model, spec=False)
    for (es, t), i in zip(cut, impl):
        if not i.startswith("ok"):
            continue
        n = count_entries(i)
        full = [show_entry(e) for e in es]
        if n < headers(t) or i != "ok " + show_list(full[:n]):
            chk.violate({"kind": "property", "case": lib.show_case(("clparse", [t])), "impl": i[:1500], "header_lines": headers(t),
                         "explanation": "a truncated changelog was parsed into a silently shortened (or altered) list instead of all entries or an error"})
    # a parse that fails (input cut inside an entry), then a good changelog in the same process: the second result is
    # that of the good changelog alone - nothing of the failed parse is left behind
    good = dict(zip([t for _, t in docs], impl_docs))
    hc, hw = [], []
    for (es, t) in rng.sample(docs, min(len(docs), chk.n(300, 6000))):
        bad_t = t[:rng.randrange(1, max(2, len(t)))]
        other = rng.choice(docs)[1]
        hc.append(("clparse2", [bad_t, other])); hw.append(good[other])
    hi = chk.run_impl(hc)
    chk.record("failed-parse-then-good-one", hc, hi)
    for c, i, w in zip(hc, hi, hw):
        if i != w:
            chk.violate({"kind": "property", "case": lib.show_case(c), "impl": i[:1200], "alone": w[:1200],
                         "explanation": "a changelog parsed after another (failed or truncated) parse in the same process is not returned as it is when parsed alone"})
    chk.extra["truncation_prefixes"] = len(cut)
    # 3. malformed header / trailer / date
    mut = []
    for es, t in rng.sample(docs, min(len(docs), chk.n(600, 6000))):
        for _ in range(4):
            mut.append(gen.mutate(rng, t, EDIT))
    e = rand_entry(rng)
    base = render([e], rng)
    mut += [base.replace(b"(", b"", 1), base.replace(b")", b"", 1), base.replace(b"  ", b" "), base.replace(b" -- ", b" - "),
            base.replace(e["date"], b"Mon, 32 Jan 2006 15:04:05 -0700"), base.replace(e["date"], e["date"][:-1]),
            base.replace(e["date"], b"2006-01-02"), base.replace(b";", b""), base[:-1], base.rstrip(b"\n") , b"", b"\n\n", b" x\n", b"x\n"]
    mc, _ = with_oracle(chk, mut)
    impl = chk.run_impl([("clparse", [t]) for t in mut])
    model = chk.run_model(mc)
    chk.compare("malformed", mc, impl, model, spec=False)
    for t, i in zip(mut, impl):
        if i.startswith("ok") and count_entries(i) < headers(t):
            chk.violate({"kind": "property", "case": lib.show_case(("clparse", [t])), "impl": i[:1500], "header_lines": headers(t),
                         "explanation": "fewer entries than header lines were returned without an error"})
    chk.assumptions += ["the trailer date is computed by the model (DATE.parse_when, a model of time.Parse with the layout RFC1123Z with a one- or two-digit day) and compared with time.Parse asked directly; version.Parse is the C03 model",
                        "the options map is compared sorted by key (last duplicate wins)"]


def replay(chk, d):
    c = lib.case_from_replay(d)
    t = c[1][0]
    mc, _ = with_oracle(chk, [t])
    i = chk.run_impl([("clparse", [t])])[0]
    m = chk.run_model(mc)[0]
    print("impl:", i[:500], "model:", m[:500])
    return 1 if i != m or ("expected" in d and d["expected"] != i) else 0
