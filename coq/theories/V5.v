(* C01 lemma B: Debian Policy 5.6.12 as a part-wise comparison = the token-key order of V1 *)
From Coq Require Import List Ascii String ZArith NArith Lia Bool Arith.
Require Import V1 V2.
Import ListNotations.
Open Scope Z_scope.

(* ---- the Policy text as a function ---- *)
Fixpoint span_nd (x : str) : str * str :=        (* the initial part consisting entirely of non-digit characters *)
  match x with c :: r => if is_digit c then ([], x) else let (p, q) := span_nd r in (c :: p, q) | [] => ([], []) end.
(* lexical comparison under the modified alphabet; a shorter part is padded with "end", which ranks 0 *)
Fixpoint lexw_nil (b : list Z) : comparison :=
  match b with [] => Eq | y :: b' => match Z.compare 0 y with Eq => lexw_nil b' | c => c end end.
Fixpoint lexw (a b : list Z) : comparison :=
  match a with
  | [] => lexw_nil b
  | x :: a' => match b with
               | [] => match Z.compare x 0 with Eq => lexw a' [] | c => c end
               | y :: b' => match Z.compare x y with Eq => lexw a' b' | c => c end
               end
  end.

Fixpoint policy_cmp (fuel : nat) (a b : str) : comparison :=
  match fuel with
  | O => Eq
  | S f =>
      match a, b with
      | [], [] => Eq
      | _, _ =>
          let (pa, ra) := span_nd a in let (pb, rb) := span_nd b in
          match lexw (map order pa) (map order pb) with
          | Eq =>
              (* "the numerical values of these two parts are compared"; an empty part counts as zero *)
              let (na, ra') := digits_val 0 ra in let (nb, rb') := digits_val 0 rb in
              match N.compare na nb with Eq => policy_cmp f ra' rb' | c => c end
          | c => c
          end
      end
  end.

(* ---- toks in part-wise form ---- *)
Lemma span_nd_app x : let (p, q) := span_nd x in x = p ++ q /\ Forall (fun c => is_digit c = false) p /\ nd_head q = false.
Proof.
  induction x as [|c r IH]; cbn [span_nd]; [split; [reflexivity|split; [constructor|reflexivity]]|].
  destruct (is_digit c) eqn:D.
  - split; [reflexivity|]. split; [constructor|]. cbn. now rewrite D.
  - destruct (span_nd r) as [p q]. destruct IH as (E&F&H). split; [cbn; now rewrite E at 1|].
    split; [constructor; auto|exact H].
Qed.

Lemma toks_nd_prefix p q : Forall (fun c => is_digit c = false) p -> toks (p ++ q) = map (fun c => (order c, 0%N)) p ++ toks q.
Proof. induction 1 as [|c p Hc Hp IH]; [reflexivity|]. cbn [app map]. rewrite toks_nd by exact Hc. now rewrite IH. Qed.

Definition dpart (q : str) : list tok := match q with [] => [] | _ => dkey q end.
Lemma toks_dpart q : nd_head q = false -> toks q = dpart q.
Proof.
  intros H. destruct (nd_head_false_cases q H) as [->|D]; [reflexivity|].
  unfold dpart. destruct q; [discriminate|]. now apply toks_d.
Qed.

(* ---- comparing "weights ++ digit part" ---- *)
Definition wtok (w : Z) : tok := (w, 0%N).
Lemma lexpad_weights : forall wa wb X Y,
  Forall (fun w => w <> 0) wa -> Forall (fun w => w <> 0) wb ->
  (forall t r, X = t :: r -> fst t = 0) -> (forall t r, Y = t :: r -> fst t = 0) ->
  lexpad (map wtok wa ++ X) (map wtok wb ++ Y) =
  match lexw wa wb with Eq => lexpad X Y | c => c end.
Proof.
  induction wa as [|x wa IH]; intros wb X Y Ha Hb HX HY.
  - induction wb as [|y wb IHb].
    + reflexivity.
    + inversion Hb as [|? ? Hy Hb']; subst. cbn [map app lexw lexw_nil].
      (* left side: X (headed by weight 0 or empty) against (y,0) :: ... *)
      destruct X as [|[w n] X'].
      * cbn [lexpad lexpad_nil_l]. unfold tok_cmp, wtok. cbn [fst snd].
        destruct (Z.compare_spec 0 y) as [E|E|E]; [congruence| |]; reflexivity.
      * assert (w = 0) by (apply (HX (w, n) X' eq_refl)). subst w. cbn [lexpad]. unfold tok_cmp, wtok. cbn [fst snd].
        destruct (Z.compare_spec 0 y) as [E|E|E]; [congruence| |]; reflexivity.
  - inversion Ha as [|? ? Hx Ha']; subst. destruct wb as [|y wb].
    + cbn [map app lexw]. destruct Y as [|[w n] Y'].
      * cbn [lexpad]. unfold tok_cmp, wtok. cbn [fst snd].
        destruct (Z.compare_spec x 0) as [E|E|E]; [congruence| |]; reflexivity.
      * assert (w = 0) by (apply (HY (w, n) Y' eq_refl)). subst w. cbn [lexpad]. unfold tok_cmp, wtok. cbn [fst snd].
        destruct (Z.compare_spec x 0) as [E|E|E]; [congruence| |]; reflexivity.
    + inversion Hb as [|? ? Hy Hb']; subst. cbn [map app lexw lexpad]. unfold tok_cmp, wtok. cbn [fst snd].
      destruct (Z.compare_spec x y) as [E|E|E]; [|reflexivity|reflexivity].
      subst. rewrite N.compare_refl. apply IH; auto.
Qed.

Lemma dpart_head q t r : dpart q = t :: r -> fst t = 0.
Proof. unfold dpart, dkey. destruct q; [discriminate|]. intros E. inversion E. reflexivity. Qed.

Lemma lexpad_dpart a b : lexpad (dpart a) (dpart b) =
  match N.compare (fst (digits_val 0 a)) (fst (digits_val 0 b)) with
  | Eq => lexpad (toks (snd (digits_val 0 a))) (toks (snd (digits_val 0 b)))
  | c => c end.
Proof.
  rewrite <- lexpad_dkey_cmp. unfold dpart. destruct a as [|ca ra], b as [|cb rb].
  - reflexivity.
  - change (dkey []) with [(0, 0%N)]. now rewrite lexpad_nil_l_pad.
  - change (dkey []) with [(0, 0%N)]. now rewrite lexpad_nil_r_pad.
  - reflexivity.
Qed.

Lemma order_nz_all p : nonul p -> Forall (fun c => is_digit c = false) p -> Forall (fun w => w <> 0) (map order p).
Proof.
  intros N F. induction p as [|c p IH]; [constructor|]. inversion N; inversion F; subst. constructor; [now apply order_nz|auto].
Qed.

Lemma nonul_app_inv p q : nonul (p ++ q) -> nonul p /\ nonul q.
Proof. unfold nonul. intros H. apply Forall_app in H. exact H. Qed.

Lemma map_wtok p : map (fun c => (order c, 0%N)) p = map wtok (map order p).
Proof. rewrite map_map. reflexivity. Qed.

Theorem policy_is_key : forall fuel a b, (List.length a + List.length b < fuel)%nat -> nonul a -> nonul b ->
  policy_cmp fuel a b = lexpad (toks a) (toks b).
Proof.
  induction fuel as [|f IH]; intros a b Hf Na Nb; [lia|]. cbn [policy_cmp].
  destruct a as [|ca a'] eqn:Ea; destruct b as [|cb b'] eqn:Eb; [reflexivity| | |]; rewrite <- Ea, <- Eb in *.
  all: pose proof (span_nd_app a) as Sa; pose proof (span_nd_app b) as Sb;
       destruct (span_nd a) as [pa ra]; destruct (span_nd b) as [pb rb];
       destruct Sa as (EA&FA&HA); destruct Sb as (EB&FB&HB).
  all: assert (NA : nonul pa /\ nonul ra) by (apply nonul_app_inv; now rewrite <- EA).
  all: assert (NB : nonul pb /\ nonul rb) by (apply nonul_app_inv; now rewrite <- EB).
  all: destruct NA as [NA1 NA2]; destruct NB as [NB1 NB2].
  all: replace (toks a) with (toks (pa ++ ra)) by (now rewrite <- EA); replace (toks b) with (toks (pb ++ rb)) by (now rewrite <- EB).
  all: rewrite (toks_nd_prefix pa ra FA), (toks_nd_prefix pb rb FB), (toks_dpart ra HA), (toks_dpart rb HB).
  all: rewrite (map_wtok pa), (map_wtok pb).
  all: rewrite lexpad_weights; [ | now apply order_nz_all | now apply order_nz_all | apply dpart_head | apply dpart_head ].
  all: destruct (lexw (map order pa) (map order pb)); try reflexivity.
  all: rewrite lexpad_dpart.
  all: destruct (digits_val 0 ra) as [na ra'] eqn:Da; destruct (digits_val 0 rb) as [nb rb'] eqn:Db; cbn [fst snd].
  all: destruct (N.compare na nb); try reflexivity.
  all: apply IH; [ | replace ra' with (snd (digits_val 0 ra)) by (now rewrite Da); now apply digits_val_nonul
                   | replace rb' with (snd (digits_val 0 rb)) by (now rewrite Db); now apply digits_val_nonul ].
  (* measure: something was consumed *)
  all: pose proof (digits_val_len 0 ra) as La; pose proof (digits_val_len 0 rb) as Lb; rewrite Da in La; rewrite Db in Lb; cbn [snd] in La, Lb.
  all: assert (LA : List.length a = (List.length pa + List.length ra)%nat) by (rewrite EA at 1; apply app_length).
  all: assert (LB : List.length b = (List.length pb + List.length rb)%nat) by (rewrite EB at 1; apply app_length).
  all: assert (Hdec : (List.length ra' + List.length rb' < List.length a + List.length b)%nat); [ | lia ].
  all: destruct pa as [|x pa']; destruct pb as [|y pb']; cbn [List.length app] in LA, LB; try lia.
  all: cbn [app] in EA, EB.
  all: assert (SA : ra = [] \/ (List.length ra' < List.length ra)%nat)
         by (destruct (nd_head_false_cases ra HA) as [->|D]; [now left|right];
             pose proof (digits_val_strict 0 ra D) as K; now rewrite Da in K).
  all: assert (SB : rb = [] \/ (List.length rb' < List.length rb)%nat)
         by (destruct (nd_head_false_cases rb HB) as [->|D]; [now left|right];
             pose proof (digits_val_strict 0 rb D) as K; now rewrite Db in K).
  all: destruct SA as [SA|SA]; destruct SB as [SB|SB]; try lia.
  all: subst; try discriminate.
Qed.
Print Assumptions policy_is_key.

(* C01 for one component: the sign of the Go comparison is the Policy comparison *)
Theorem C01_verrevcmp_is_policy a b : nonul a -> nonul b ->
  exists z, verrevcmp a b = Some z /\ Z.sgn z = csgn (policy_cmp (S (List.length a + List.length b)) a b).
Proof.
  intros Na Nb. destruct (verrevcmp_key a b Na Nb) as (z&E&S). exists z. split; [exact E|].
  rewrite policy_is_key by (auto; lia). exact S.
Qed.
Print Assumptions C01_verrevcmp_is_policy.

