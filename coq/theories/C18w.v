(* C18 non-vacuity: each parser model returns a value on a well-formed input and an error on a malformed one
   (so "a value or an error" is not trivially one of the two), and the fuel premises are met. *)
From Coq Require Import List Ascii String Bool Arith NArith ZArith Lia.
Require Import GS R2 D3 CL V11 TS TS2.
Import ListNotations.

Example C18w_dependency : (exists d, D3.parse (s "foo (>= 1.0) [amd64] | bar, ${misc:Depends}") = D3.Ok d) /\
  D3.parse (s "foo (>= 1.0") = D3.Err /\ D3.parse (s "foo [amd64 !i386]") = D3.Err /\ D3.parse (s "a ${") = D3.Err.
Proof. vm_compute. split; [eexists; reflexivity|repeat split]. Qed.
Example C18w_paragraphs : (exists ps, R2.read_all (s "A: b" ++ [nl] ++ s " c" ++ [nl] ++ [nl] ++ s "D: e") = Some ps /\ List.length ps = 2) /\
  R2.read_all (s " orphan continuation" ++ [nl]) = None.
Proof. vm_compute. split; [eexists; split; reflexivity|reflexivity]. Qed.
Example C18w_version : (exists v, V11.parse_u (s " 1:2.0-3 ") = Some v) /\ V11.parse_u (s "1:") = None /\ V11.parse_u (s "a1") = None.
Proof. vm_compute. split; [eexists; reflexivity|split; reflexivity]. Qed.
Example C18w_fuel_premise : let ls := [s "A: b"; s " c"; []; s "D: e"] in List.length ls < 5 /\ R2.all_fuel 5 ls = R2.all_fuel 50 ls.
Proof. vm_compute. split; [lia|reflexivity]. Qed.
Example C18w_order : TS2.order_dscs [ {| binaries := [s "b"]; picked := [s "a"] |}; {| binaries := [s "a"]; picked := [] |} ] = TS.SOk [1; 0] /\
  TS2.order_dscs [ {| binaries := [s "b"]; picked := [s "a"] |}; {| binaries := [s "a"]; picked := [s "b"] |} ] = TS.SCycle.
Proof. vm_compute. split; reflexivity. Qed.
