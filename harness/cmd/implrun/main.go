// implrun executes the real go-debian functions on the cases of the correspondence
// check.  One case per input line: <op> TAB <hexarg> TAB <hexarg> ...; one output line per
// case, in the canonical format of coq/theories/Show.v.  A panic inside the code under
// test is an observable ("panic"), as is a call that does not return in time ("timeout").
package main

import (
	"bufio"
	"encoding/hex"
	"fmt"
	"os"
	"strconv"
	"strings"
	"sync"
	"time"
)

type opFunc func(a []string) string

var ops = map[string]opFunc{}

// hx renders a byte string as the model does: 'x' + two hex digits per byte.
func hx(s string) string { return "x" + hex.EncodeToString([]byte(s)) }

func showBool(b bool) string {
	if b {
		return "T"
	}
	return "F"
}

func sgn(i int) string {
	switch {
	case i < 0:
		return "-1"
	case i > 0:
		return "1"
	}
	return "0"
}

func showList(items []string) string {
	if len(items) == 0 {
		return "[]"
	}
	return "[ " + strings.Join(items, " ") + " ]"
}

func showOpt(present bool, s string) string {
	if !present {
		return "-"
	}
	return "( " + s + " )"
}

func argUint(s string) uint {
	n, err := strconv.ParseUint(s, 10, 64)
	if err != nil {
		panic("harness: bad numeric argument " + s)
	}
	return uint(n)
}

func arg(a []string, i int) string {
	if i < len(a) {
		return a[i]
	}
	return ""
}

// call runs f with panic recovery and a watchdog.
func call(f opFunc, a []string, limit time.Duration) string {
	done := make(chan string, 1)
	go func() {
		defer func() {
			if r := recover(); r != nil {
				done <- "panic"
			}
		}()
		done <- f(a)
	}()
	select {
	case r := <-done:
		return r
	case <-time.After(limit):
		return "timeout"
	}
}

// concurrentMain (VERIF_MODE=concurrent, binary built with -race): every case is run three times in sequence and
// then once more from each of 16 goroutines running all cases at the same time, in different orders; each output
// line is "<first result> SAME" or "<first result> DIFF <other result>".
func concurrentMain() {
	in := bufio.NewReaderSize(os.Stdin, 1<<20)
	type kase struct {
		f    opFunc
		args []string
	}
	var cases []kase
	for {
		line, err := in.ReadString('\n')
		if len(line) > 0 {
			parts := strings.Split(strings.TrimRight(line, "\n"), "\t")
			f, ok := ops[parts[0]]
			if !ok {
				f = func([]string) string { return "unknown-op" }
			}
			args := make([]string, len(parts)-1)
			for i, h := range parts[1:] {
				b, _ := hex.DecodeString(h)
				args[i] = string(b)
			}
			cases = append(cases, kase{f, args})
		}
		if err != nil {
			break
		}
	}
	limit := 20 * time.Second
	first := make([]string, len(cases))
	have := make([]bool, len(cases))
	diff := make([]string, len(cases))
	// The concurrent phase comes FIRST, in a process that has not called the library yet: state that a parser
	// might keep between calls (caches, memo tables, lazily built tables) is then still cold, and a write to it
	// races with the other goroutines.  The sequential repeats follow and are compared with the same answers.
	var mu sync.Mutex
	var wg sync.WaitGroup
	for g := 0; g < 16; g++ {
		wg.Add(1)
		go func(g int) {
			defer wg.Done()
			n := len(cases)
			for k := 0; k < n; k++ {
				i := (k*(2*g+1) + g*7) % n // a different order in every goroutine
				r := call(cases[i].f, cases[i].args, limit)
				mu.Lock()
				if !have[i] {
					first[i], have[i] = r, true
				} else if r != first[i] && diff[i] == "" {
					diff[i] = r
				}
				mu.Unlock()
			}
		}(g)
	}
	wg.Wait()
	for i, c := range cases {
		for rep := 0; rep < 3; rep++ {
			if r := call(c.f, c.args, limit); r != first[i] && diff[i] == "" {
				diff[i] = r
			}
		}
	}
	out := bufio.NewWriterSize(os.Stdout, 1<<20)
	defer out.Flush()
	for i := range cases {
		if diff[i] == "" {
			fmt.Fprintln(out, first[i]+" SAME")
		} else {
			fmt.Fprintln(out, first[i]+" DIFF "+diff[i])
		}
	}
}

func main() {
	if os.Getenv("VERIF_MODE") == "concurrent" {
		concurrentMain()
		return
	}
	in := bufio.NewReaderSize(os.Stdin, 1<<20)
	out := bufio.NewWriterSize(os.Stdout, 1<<20)
	defer out.Flush()
	limit := 5 * time.Second
	for {
		line, err := in.ReadString('\n')
		if len(line) > 0 {
			line = strings.TrimRight(line, "\n")
			parts := strings.Split(line, "\t")
			f, ok := ops[parts[0]]
			if !ok {
				fmt.Fprintln(out, "unknown-op")
			} else {
				args := make([]string, len(parts)-1)
				for i, h := range parts[1:] {
					b, herr := hex.DecodeString(h)
					if herr != nil {
						panic("harness: bad hex argument")
					}
					args[i] = string(b)
				}
				fmt.Fprintln(out, call(f, args, limit))
			}
		}
		if err != nil {
			break
		}
	}
}
