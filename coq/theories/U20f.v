(* C20: the RETRY history.  A Copy that failed half-way (any fault at any primitive call) has not touched the source
   directory; so when the cause is gone and Copy is tried again through the same handle into the same destination and
   succeeds, every file in the destination is identical to its ORIGINAL and the originals are intact - whatever the first
   attempt left behind in the destination. *)
From Coq Require Import List Ascii String Bool Arith Lia.
Require Import GS U20 U20b U20c.
Import ListNotations.

Section Retry.
  Variables fault1 fault2 : nat -> bool.

  Lemma neq_entry (d1 d2 a b : str) : d1 <> d2 -> entry_eqb (d1, a) (d2, b) = false.
  Proof. intros N. unfold entry_eqb. cbn [fst snd]. destruct (str_eqb_spec d1 d2); [contradiction|reflexivity]. Qed.

  (* Copy - failed or not - leaves every entry of the source directory as it was *)
  Theorem copy_source_frame fault h dest x x' ok : h_dir h <> dest -> do_copy fault h dest x = (x', ok) ->
    forall n, fs_get (h_dir h, n) (fs x') = fs_get (h_dir h, n) (fs x).
  Proof.
    intros N. unfold do_copy, transfer. destruct (negb (listed_ok h)); [intros E; now inversion E|].
    destruct (each (copy_file fault) (h_dir h) dest (h_listed h) x) as [x1 ok1] eqn:E1. intros E n.
    assert (F1 : fs_get (h_dir h, n) (fs x1) = fs_get (h_dir h, n) (fs x)).
    { eapply each_copy_frame; [exact E1|]. intros m _. apply neq_entry. congruence. }
    destruct ok1; [|inversion E; subst; exact F1].
    rewrite <- F1. eapply copy_frame; [exact E|]. apply neq_entry. congruence.
  Qed.

  Theorem copy_retry_is_identical h dest x x1 x2 : h_dir h <> dest -> NoDup (h_listed h) -> ~ In (h_file h) (h_listed h) ->
    do_copy fault1 h dest x = (x1, false) -> do_copy fault2 h dest x1 = (x2, true) ->
    forall n, In n (h_file h :: h_listed h) ->
      fs_get (dest, n) (fs x2) = fs_get (h_dir h, n) (fs x) /\ fs_get (h_dir h, n) (fs x) <> None /\
      fs_get (h_dir h, n) (fs x2) = fs_get (h_dir h, n) (fs x).
  Proof.
    intros N ND NI C1 C2 n I. pose proof (copy_source_frame fault1 h dest x x1 false N C1 n) as F.
    destruct (C20_copy_identical fault2 h dest x1 x2 N ND NI C2 n I) as (A & B & C). rewrite F in A, B, C. auto.
  Qed.
End Retry.
Print Assumptions copy_retry_is_identical.
