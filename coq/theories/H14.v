(* C12: the hexadecimal law that C12_from_hasher takes as a hypothesis, proved for the concrete lower-case encoder
   (fmt "%x" of a digest), so that the theorem about entries built from a hasher holds without it. *)
From Coq Require Import List Ascii String Bool Arith ZArith Lia.
Require Import GS H12.
Import ListNotations.

Definition hexdigit (n : nat) : ascii := if n <? 10 then ascii_of_nat (48 + n) else ascii_of_nat (87 + n).
Fixpoint hex_encode (x : str) : str :=
  match x with [] => [] | c :: r => hexdigit (code c / 16) :: hexdigit (code c mod 16) :: hex_encode r end.

Lemma hex_byte : forall c r t, hex_decode r = Some t ->
  hex_decode (hexdigit (code c / 16) :: hexdigit (code c mod 16) :: r) = Some (c :: t).
Proof.
  intros c r t E. cbn [hex_decode]. rewrite E.
  destruct c as [[|] [|] [|] [|] [|] [|] [|] [|]]; vm_compute; reflexivity.
Qed.
Theorem hex_round : forall d, hex_decode (hex_encode d) = Some d.
Proof. induction d as [|c d IH]; [reflexivity|]. cbn [hex_encode]. now apply hex_byte. Qed.

(* C12_entry_from_hasher with the law discharged *)
Theorem C12_entry_from_hasher_hex : forall H names chunks st h path, run_writers names chunks = Some st -> In h (w_hashers st) ->
  forall chunks', verify H (from_hasher H hex_encode path h) chunks' = Accept <->
                  H (h_alg h) (List.concat chunks') = H (h_alg h) (List.concat chunks).
Proof. intros H. exact (C12_from_hasher H hex_encode hex_round). Qed.
Print Assumptions C12_entry_from_hasher_hex.

