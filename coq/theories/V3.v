(* version.go after the drafted repairs: Parse / String and the round trip (C03) *)
From Coq Require Import List Ascii String Bool Arith NArith ZArith Lia.
Require Import GS.
Import ListNotations.

(* ---------- decimal ---------- *)
Definition is_digit (c : ascii) : bool := (48 <=? code c) && (code c <=? 57).
Definition dval (c : ascii) : N := N.of_nat (code c - 48).
Fixpoint dv (a : N) (x : str) : option N :=
  match x with [] => Some a | c :: r => if is_digit c then dv (10 * a + dval c)%N r else None end.

Definition digit_of (d : N) : ascii := ascii_of_N (48 + d).
Fixpoint itoa_fuel (fuel : nat) (n : N) (acc : str) : str :=
  match fuel with
  | O => acc
  | S f => let d := digit_of (n mod 10) in
           if (n <? 10)%N then d :: acc else itoa_fuel f (n / 10)%N (d :: acc)
  end.
Definition itoa (n : N) : str := itoa_fuel (S (N.to_nat (N.log2 n))) n [].

(* strconv.ParseUint(x, 10, 0) on the 64-bit build and uint(): the accepted epochs are the non-empty runs of digits (no sign)
   whose value fits the Epoch field *)
Definition plus : ascii := "+"%char.
Definition minus : ascii := "-"%char.
Definition max_epoch : N := 18446744073709551615%N.
Definition parse_epoch (x : str) : option N :=
  match x with
  | [] => None
  | _ => match dv 0 x with
         | None => None
         | Some n => if (n <=? max_epoch)%N then Some n else None
         end
  end.

(* ---------- parse ---------- *)
Record version := { epoch : N; upstream : str; revision : str }.
Definition colon : ascii := ":"%char.
Definition is_alpha (c : ascii) : bool :=
  ((97 <=? code c) && (code c <=? 122)) || ((65 <=? code c) && (code c <=? 90)).
Definition ok_rev (c : ascii) : bool :=
  is_digit c || is_alpha c || ceq c "."%char || ceq c "+"%char || ceq c "~"%char.
Definition ok_up (c : ascii) : bool := ok_rev c || ceq c minus || ceq c colon.

(* first occurrence *)
Fixpoint cut_first (d : ascii) (cur x : str) : option (str * str) :=
  match x with
  | [] => None
  | c :: r => if ceq c d then Some (rev cur, r) else cut_first d (c :: cur) r
  end.
(* last occurrence = first occurrence in the reverse *)
Definition cut_last (d : ascii) (x : str) : option (str * str) :=
  match cut_first d [] (rev x) with
  | Some (a, b) => Some (rev b, rev a)
  | None => None
  end.

Definition parse (input : str) : option version :=
  let t := trim_space input in
  if str_eqb t [] then None
  else if existsb is_space t then None
  else
    let ep := match cut_first colon [] t with
              | Some (e, rest) => option_map (fun n => (n, rest)) (parse_epoch e)
              | None => Some (0%N, t)
              end in
    match ep with
    | None => None
    | Some (e, rest) =>
        if str_eqb rest [] then None
        else
          let '(up, rv) := match cut_last minus rest with Some (a, b) => (a, b) | None => (rest, []) end in
          match up with
          | [] => None
          | c :: _ =>
              if negb (is_digit c) then None
              else if negb (forallb ok_up up) then None
              else if negb (forallb ok_rev rv) then None
              else Some {| epoch := e; upstream := up; revision := rv |}
          end
    end.

Definition contains (d : ascii) (x : str) : bool := existsb (fun c => ceq c d) x.
Definition without_epoch (v : version) : str :=
  upstream v ++ (if negb (str_eqb (revision v) []) || contains minus (upstream v) then minus :: revision v else []).
Definition to_string (v : version) : str :=
  if (0 <? epoch v)%N || contains colon (upstream v) then itoa (epoch v) ++ colon :: without_epoch v
  else without_epoch v.


(* ================= proofs ================= *)
Open Scope N_scope.

Lemma digit_of_spec d : d < 10 -> is_digit (digit_of d) = true /\ dval (digit_of d) = d.
Proof.
  intros H. assert (C : d = 0 \/ d = 1 \/ d = 2 \/ d = 3 \/ d = 4 \/ d = 5 \/ d = 6 \/ d = 7 \/ d = 8 \/ d = 9) by lia.
  repeat (destruct C as [->|C]; [split; reflexivity|]). subst. split; reflexivity.
Qed.

Lemma dv_app : forall x a y, dv a (x ++ y) = match dv a x with Some v => dv v y | None => None end.
Proof. induction x as [|c r IH]; intros a y; cbn [app dv]; [reflexivity|]. destruct (is_digit c); [apply IH|reflexivity]. Qed.

Lemma itoa_fuel_app : forall f n acc, itoa_fuel f n acc = itoa_fuel f n [] ++ acc.
Proof.
  induction f as [|f IH]; intros n acc; cbn [itoa_fuel]; [reflexivity|].
  destruct (n <? 10); [reflexivity|]. rewrite IH. rewrite (IH (n / 10) [digit_of (n mod 10)]).
  now rewrite <- app_assoc.
Qed.

Lemma dv_itoa_fuel : forall f n, n < 10 ^ N.of_nat f -> dv 0 (itoa_fuel f n []) = Some n.
Proof.
  induction f as [|f IH]; intros n H.
  - cbn in H. assert (n = 0) by lia. subst. reflexivity.
  - cbn [itoa_fuel]. assert (M : n mod 10 < 10) by (apply N.mod_lt; lia).
    destruct (digit_of_spec (n mod 10) M) as [D V].
    destruct (N.ltb_spec n 10) as [L|L].
    + cbn [dv]. rewrite D, V. rewrite N.mod_small by exact L. f_equal; lia.
    + rewrite itoa_fuel_app, dv_app. rewrite IH.
      * cbn [dv]. rewrite D, V. f_equal. pose proof (N.div_mod n 10 ltac:(lia)) as Q. lia.
      * rewrite Nat2N.inj_succ, N.pow_succ_r' in H. apply N.div_lt_upper_bound; lia.
Qed.

Lemma itoa_fuel_digits : forall f n acc, forallb is_digit acc = true -> forallb is_digit (itoa_fuel f n acc) = true.
Proof.
  induction f as [|f IH]; intros n acc H; cbn [itoa_fuel]; [exact H|].
  assert (M : n mod 10 < 10) by (apply N.mod_lt; lia). destruct (digit_of_spec (n mod 10) M) as [D _].
  destruct (n <? 10); [cbn; now rewrite D|]. apply IH. cbn. now rewrite D.
Qed.

Lemma itoa_nonempty n : itoa n <> [].
Proof.
  unfold itoa. cbn [itoa_fuel]. destruct (n <? 10); [discriminate|].
  rewrite itoa_fuel_app. intros E. apply app_eq_nil in E as [_ E]. discriminate.
Qed.

Lemma dv_itoa n : dv 0 (itoa n) = Some n.
Proof.
  unfold itoa. apply dv_itoa_fuel. rewrite Nat2N.inj_succ, N2Nat.id.
  destruct (N.eq_dec n 0) as [->|Hn]; [reflexivity|].
  pose proof (N.log2_spec n ltac:(lia)) as [_ U].
  eapply N.lt_le_trans; [exact U|]. apply N.pow_le_mono_l. lia.
Qed.

Lemma itoa_digits n : forallb is_digit (itoa n) = true.
Proof. unfold itoa. now apply itoa_fuel_digits. Qed.
Close Scope N_scope.

(* ---------- cutting ---------- *)
Lemma cut_first_word d : forall w cur r, free d w -> cut_first d cur (w ++ d :: r) = Some (rev cur ++ w, r).
Proof.
  induction w as [|c w IH]; intros cur r H.
  - cbn. destruct (ceq_spec d d); [|congruence]. now rewrite app_nil_r.
  - inversion H; subst. cbn [app cut_first]. destruct (ceq_spec c d); [contradiction|].
    rewrite IH by assumption. cbn [rev]. now rewrite <- app_assoc.
Qed.
Lemma cut_first_none d : forall x cur, free d x -> cut_first d cur x = None.
Proof.
  induction x as [|c x IH]; intros cur H; [reflexivity|]. inversion H; subst. cbn.
  destruct (ceq_spec c d); [contradiction|]. now apply IH.
Qed.
Lemma free_rev d x : free d x -> free d (rev x).
Proof. unfold free. apply Forall_rev. Qed.
Lemma cut_last_split d a b : free d b -> cut_last d (a ++ d :: b) = Some (a, b).
Proof.
  intros H. unfold cut_last. rewrite rev_app_distr. cbn [rev]. rewrite <- app_assoc. cbn [app].
  rewrite (cut_first_word d (rev b) [] (rev a) (free_rev d b H)). cbn [rev app]. now rewrite !rev_involutive.
Qed.
Lemma cut_last_none d x : free d x -> cut_last d x = None.
Proof. intros H. unfold cut_last. now rewrite (cut_first_none d (rev x) [] (free_rev d x H)). Qed.

(* ---------- characters ---------- *)
Lemma forallb_free (P : ascii -> bool) d x : forallb P x = true -> P d = false -> free d x.
Proof.
  intros H Hd. unfold free. rewrite Forall_forall. rewrite forallb_forall in H.
  intros c Hc E. subst c. rewrite (H d Hc) in Hd. discriminate.
Qed.

Definition nosp (c : ascii) : bool := negb (is_space c).
Lemma nosp_trim x : forallb nosp x = true -> trim_space x = x /\ existsb is_space x = false.
Proof.
  intros H. split.
  - apply trim_space_id.
    + destruct x as [|c r]; [exact I|]. cbn in H. apply andb_true_iff in H as [H _]. now apply negb_true_iff in H.
    + unfold no_trail. assert (R : forallb nosp (rev x) = true).
      { rewrite forallb_forall in *. intros c Hc. apply H. now apply in_rev. }
      destruct (rev x) as [|c r]; [exact I|]. cbn in R. apply andb_true_iff in R as [R _]. now apply negb_true_iff in R.
  - destruct (existsb is_space x) eqn:E; [|reflexivity]. apply existsb_exists in E as (c&Hc&Sc).
    rewrite forallb_forall in H. specialize (H c Hc). unfold nosp in H. rewrite Sc in H. discriminate.
Qed.

Lemma forallb_impl (P Q : ascii -> bool) x : (forall c, P c = true -> Q c = true) -> forallb P x = true -> forallb Q x = true.
Proof. intros I H. rewrite forallb_forall in *. auto. Qed.

(* each class of characters is disjoint from what must not occur in it: decided on all 256 bytes *)
Definition all_ascii : list ascii := map ascii_of_nat (seq 0 256).
Lemma all_ascii_in c : In c all_ascii.
Proof.
  unfold all_ascii. apply in_map_iff. exists (nat_of_ascii c). split; [apply ascii_nat_embedding|].
  apply in_seq. pose proof (nat_ascii_bounded c). lia.
Qed.
Lemma by_enum (P : ascii -> bool) : forallb P all_ascii = true -> forall c, P c = true.
Proof. intros H c. rewrite forallb_forall in H. apply H, all_ascii_in. Qed.

Lemma digit_facts : forall c, (negb (is_digit c) || (nosp c && negb (ceq c colon) && negb (ceq c plus) && negb (ceq c minus) && ok_up c && ok_rev c)) = true.
Proof. apply by_enum. vm_compute. reflexivity. Qed.
Lemma ok_up_facts : forall c, (negb (ok_up c) || nosp c) = true.
Proof. apply by_enum. vm_compute. reflexivity. Qed.
Lemma ok_rev_facts : forall c, (negb (ok_rev c) || (nosp c && negb (ceq c colon) && negb (ceq c minus) && ok_up c)) = true.
Proof. apply by_enum. vm_compute. reflexivity. Qed.

(* ---------- the round trip ---------- *)
Record wf_v (v : version) : Prop := {
  wf_epoch : (epoch v <= max_epoch)%N;
  wf_first : exists c r, upstream v = c :: r /\ is_digit c = true;
  wf_up : forallb ok_up (upstream v) = true;
  wf_rev : forallb ok_rev (revision v) = true }.

Lemma class_nosp (P : ascii -> bool) x : (forall c, (negb (P c) || nosp c) = true) -> forallb P x = true -> forallb nosp x = true.
Proof.
  intros F H. eapply forallb_impl; [|exact H]. intros c Pc. specialize (F c). rewrite Pc in F. exact F.
Qed.

Lemma digits_class x : forallb is_digit x = true ->
  forallb nosp x = true /\ free colon x /\ free plus x /\ free minus x.
Proof.
  intros H. repeat split.
  - eapply forallb_impl; [|exact H]. intros c D. pose proof (digit_facts c) as F. rewrite D in F. cbn in F.
    repeat (apply andb_true_iff in F as [F ?]). exact F.
  - apply (forallb_free is_digit); [exact H|reflexivity].
  - apply (forallb_free is_digit); [exact H|reflexivity].
  - apply (forallb_free is_digit); [exact H|reflexivity].
Qed.

Lemma parse_epoch_itoa n : (n <= max_epoch)%N -> parse_epoch (itoa n) = Some n.
Proof.
  intros Hn. pose proof (itoa_digits n) as D. pose proof (itoa_nonempty n) as NE. pose proof (dv_itoa n) as V.
  destruct (itoa n) as [|c r] eqn:E; [congruence|]. unfold parse_epoch.
  rewrite V. destruct (N.leb_spec n max_epoch); [reflexivity|lia].
Qed.

Theorem roundtrip_wf v : wf_v v -> parse (to_string v) = Some v.
Proof.
  intros [He (c0&r0&Hup&Hd0) Hu Hr]. destruct v as [e up rv]. cbn [epoch upstream revision] in *.
  (* the text after the epoch *)
  set (w := without_epoch {| epoch := e; upstream := up; revision := rv |}).
  assert (Hfr : free minus rv) by (apply (forallb_free ok_rev); [exact Hr|reflexivity]).
  assert (Hcr : free colon rv) by (apply (forallb_free ok_rev); [exact Hr|reflexivity]).
  assert (Hw_ne : w <> []) by (subst w; unfold without_epoch; cbn [upstream]; rewrite Hup; discriminate).
  assert (Hw_nosp : forallb nosp w = true).
  { subst w. unfold without_epoch. cbn [upstream revision]. rewrite forallb_app. apply andb_true_iff. split.
    - apply (class_nosp ok_up); [apply ok_up_facts|exact Hu].
    - destruct (negb (str_eqb rv []) || contains minus up); [|reflexivity]. cbn [forallb]. apply andb_true_iff. split; [reflexivity|].
      eapply forallb_impl; [|exact Hr]. intros c Pc. pose proof (ok_rev_facts c) as F. rewrite Pc in F. cbn in F.
      repeat (apply andb_true_iff in F as [F ?]). exact F. }
  (* splitting w at its last hyphen gives back (up, rv) *)
  assert (Hsplit : match cut_last minus w with Some (a, b) => (a, b) | None => (w, []) end = (up, rv)).
  { subst w. unfold without_epoch. cbn [upstream revision].
    destruct (negb (str_eqb rv []) || contains minus up) eqn:C.
    - now rewrite (cut_last_split minus up rv Hfr).
    - apply orb_false_iff in C as [C1 C2]. apply negb_false_iff in C1. destruct (str_eqb_spec rv []) as [Erv|]; [subst rv|discriminate].
      rewrite app_nil_r. rewrite cut_last_none; [reflexivity|].
      unfold free. rewrite Forall_forall. intros c Hc E. subst c.
      assert (contains minus up = true) by (apply existsb_exists; exists minus; split; [exact Hc|]; destruct (ceq_spec minus minus); congruence).
      congruence. }
  (* the tail of parse, once the epoch and w are known *)
  assert (Tail : forall ee, (if str_eqb w [] then None else
            let '(up0, rv0) := match cut_last minus w with Some (a, b) => (a, b) | None => (w, []) end in
            match up0 with [] => None | c :: _ =>
              if negb (is_digit c) then None else if negb (forallb ok_up up0) then None
              else if negb (forallb ok_rev rv0) then None
              else Some {| epoch := ee; upstream := up0; revision := rv0 |} end) =
            Some {| epoch := ee; upstream := up; revision := rv |}).
  { intros ee. destruct (str_eqb_spec w []); [contradiction|]. rewrite Hsplit. rewrite Hup, Hd0. cbn [negb].
    rewrite <- Hup, Hu, Hr. reflexivity. }
  unfold to_string. cbn [epoch upstream].
  destruct ((0 <? e)%N || contains colon up) eqn:Cond.
  - (* explicit epoch *)
    fold w. set (t := itoa e ++ colon :: w).
    destruct (digits_class (itoa e) (itoa_digits e)) as (Dn&Dc&_&_).
    assert (Tn : forallb nosp t = true) by (subst t; rewrite forallb_app, Dn; cbn; exact Hw_nosp).
    destruct (nosp_trim t Tn) as [T1 T2]. unfold parse. rewrite T1, T2.
    destruct (str_eqb_spec t []) as [E|_]; [subst t; destruct (itoa e); discriminate|].
    subst t. rewrite (cut_first_word colon (itoa e) [] w Dc). cbn [rev app].
    rewrite (parse_epoch_itoa e He). cbn [option_map]. apply Tail.
  - (* no epoch printed: e = 0 and no colon in up *)
    apply orb_false_iff in Cond as [C1 C2]. apply N.ltb_ge in C1. assert (e = 0%N) by lia. subst e.
    fold w. destruct (nosp_trim w Hw_nosp) as [T1 T2]. unfold parse. rewrite T1, T2.
    assert (Ew : str_eqb w [] = false) by (destruct (str_eqb_spec w []); [contradiction|reflexivity]).
    rewrite Ew.
    assert (Fc : free colon w).
    { subst w. unfold without_epoch. cbn [upstream revision]. apply Forall_app. split.
      - unfold free. rewrite Forall_forall. intros c Hc E. subst c.
        assert (contains colon up = true) by (apply existsb_exists; exists colon; split; [exact Hc|]; destruct (ceq_spec colon colon); congruence).
        congruence.
      - destruct (negb (str_eqb rv []) || contains minus up); [|constructor]. constructor; [discriminate|exact Hcr]. }
    rewrite (cut_first_none colon w [] Fc). apply Tail.
Qed.

(* whatever Parse accepts is well formed, hence: *)
Lemma parse_wf x v : parse x = Some v -> wf_v v.
Proof.
  unfold parse. set (t := trim_space x).
  destruct (str_eqb t []); [discriminate|]. destruct (existsb is_space t); [discriminate|].
  set (ep := match cut_first colon [] t with Some (e, rest) => option_map (fun n => (n, rest)) (parse_epoch e) | None => Some (0%N, t) end).
  assert (Hep : forall e rest, ep = Some (e, rest) -> (e <= max_epoch)%N).
  { subst ep. intros e rest. destruct (cut_first colon [] t) as [[e0 rest0]|].
    - unfold parse_epoch. destruct e0 as [|c r]; [cbn; discriminate|].
      destruct (dv 0 (c :: r)) as [n|]; [|cbn; discriminate].
      destruct (N.leb_spec n max_epoch) as [Hle|]; [|cbn; discriminate]. cbn. intros E. assert (e = n) by congruence. subst e. exact Hle.
    - intros E. assert (e = 0%N) by congruence. subst e. unfold max_epoch. lia. }
  destruct ep as [[e rest]|]; [|discriminate]. specialize (Hep e rest eq_refl).
  destruct (str_eqb rest []); [discriminate|].
  destruct (match cut_last minus rest with Some (a, b) => (a, b) | None => (rest, []) end) as [up rv].
  destruct up as [|c r]; [discriminate|].
  destruct (is_digit c) eqn:D; cbn [negb]; [|discriminate].
  destruct (forallb ok_up (c :: r)) eqn:U; cbn [negb]; [|discriminate].
  destruct (forallb ok_rev rv) eqn:R; cbn [negb]; [|discriminate].
  intros E. inversion E; subst. constructor; cbn; eauto.
Qed.

Theorem C03_roundtrip x v : parse x = Some v -> parse (to_string v) = Some v.
Proof. intros H. apply roundtrip_wf. eapply parse_wf; eauto. Qed.
Print Assumptions C03_roundtrip.
