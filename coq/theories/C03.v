(* C03 - Version strings parse to their parts and render back without loss.
   Property theorems only.  Model: V11.parse_u = version.Parse (TrimSpace / IsSpace with Go's UTF-8
   semantics, first-colon epoch with strconv.ParseInt's range, last-hyphen revision, the two
   alphabet scans); V3.to_string = Version.String = MarshalControl = MarshalText (all three call
   String() in the Go code; UnmarshalControl / UnmarshalText / JSON call the same parser - the tie
   checks those entry points separately). *)
From Coq Require Import List Ascii String Bool Arith NArith ZArith Lia.
Require Import GS V3 V4 V9 V11 V12 V13.
Import ListNotations.

(* every rendering: the canonical text of a well-formed triple, with any Unicode whitespace around
   it, parses to exactly the triple.  wf_v: epoch <= 2^63-1, upstream starts with a digit and is over
   [A-Za-z0-9.+~:-], revision over [A-Za-z0-9.+~].  to_string writes the epoch only when it is needed
   (non-zero, or a colon in the upstream part) and the hyphen only when needed. *)
Theorem C03_parse_grammar : forall v es1 es2, wf_v v -> Forall space_enc es1 -> Forall space_enc es2 ->
  parse_u (List.concat es1 ++ to_string v ++ List.concat es2) = Some v.
Proof. exact C03u_parse_grammar. Qed.
Print Assumptions C03_parse_grammar.

(* the parts are what the property says: digits before the first colon, text after the last hyphen *)
Theorem C03_parts : forall x v, parse_u x = Some v -> wf_v v.
Proof. exact parse_u_wf. Qed.
Print Assumptions C03_parts.

(* rejections; [T] between any Unicode whitespace, T itself without whitespace and starting and ending
   in a plain ASCII character *)
Theorem C03_reject_bad_epoch : forall es1 es2, Forall space_enc es1 -> Forall space_enc es2 -> forall e r,
  ends_plain (e ++ colon :: r) -> has_space_u (e ++ colon :: r) = false -> free colon e -> parse_epoch e = None ->
  parse_u (List.concat es1 ++ (e ++ colon :: r) ++ List.concat es2) = None.
Proof. exact C03u_reject_bad_epoch. Qed.
Theorem C03_epoch_nonnumeric : forall c0 r c, In c r -> is_digit c = false -> parse_epoch (c0 :: r) = None.
Proof. exact epoch_class_nonnumeric. Qed.
Theorem C03_epoch_any_nondigit : forall x c, In c x -> is_digit c = false -> parse_epoch x = None.
Proof. exact epoch_class_any_nondigit. Qed.
Theorem C03_epoch_empty : parse_epoch [] = None.
Proof. exact epoch_empty. Qed.
(* a sign is not part of an epoch: "-1:", "-0:" and "+1:" are all refused (repair of the r12 finding; strconv.ParseInt took them) *)
Theorem C03_epoch_signed : forall ds, parse_epoch (minus :: ds) = None /\ parse_epoch (plus :: ds) = None.
Proof. exact epoch_class_signed. Qed.
(* oversized: beyond the Epoch field (a 64-bit uint on the modelled build) *)
Theorem C03_epoch_oversized : forall c r n, dv 0 (c :: r) = Some n -> (max_epoch < n)%N -> parse_epoch (c :: r) = None.
Proof. exact epoch_class_oversized. Qed.
(* and every run of digits up to the field's maximum is accepted with exactly its value *)
Theorem C03_epoch_accepted : forall c r n, dv 0 (c :: r) = Some n -> (n <= max_epoch)%N -> parse_epoch (c :: r) = Some n.
Proof. exact epoch_class_accepted. Qed.
Theorem C03_reject_nothing_after_colon : forall es1 es2, Forall space_enc es1 -> Forall space_enc es2 -> forall e,
  ends_plain (e ++ [colon]) -> has_space_u (e ++ [colon]) = false -> free colon e ->
  parse_u (List.concat es1 ++ (e ++ [colon]) ++ List.concat es2) = None.
Proof. exact C03u_reject_nothing_after_colon. Qed.
Theorem C03_reject_first_char : forall es1 es2, Forall space_enc es1 -> Forall space_enc es2 -> forall e c r,
  ends_plain (e ++ colon :: c :: r) -> has_space_u (e ++ colon :: c :: r) = false -> free colon e -> is_digit c = false ->
  parse_u (List.concat es1 ++ (e ++ colon :: c :: r) ++ List.concat es2) = None.
Proof. exact C03u_reject_first_char. Qed.
Theorem C03_reject_first_char_noepoch : forall es1 es2, Forall space_enc es1 -> Forall space_enc es2 -> forall c r,
  ends_plain (c :: r) -> has_space_u (c :: r) = false -> free colon (c :: r) -> is_digit c = false ->
  parse_u (List.concat es1 ++ (c :: r) ++ List.concat es2) = None.
Proof. exact C03u_reject_first_char_noepoch. Qed.
Theorem C03_reject_alphabet : forall es1 es2, Forall space_enc es1 -> Forall space_enc es2 -> forall t c,
  ends_plain t -> has_space_u t = false -> In c t -> ok_up c = false ->
  parse_u (List.concat es1 ++ t ++ List.concat es2) = None.
Proof. exact C03u_reject_alphabet. Qed.
Theorem C03_reject_revision_alphabet : forall es1 es2, Forall space_enc es1 -> Forall space_enc es2 -> forall a b c,
  has_space_u (a ++ minus :: b) = false -> ends_plain (a ++ minus :: b) -> free colon (a ++ minus :: b) ->
  free minus b -> In c b -> ok_rev c = false -> parse_u (List.concat es1 ++ (a ++ minus :: b) ++ List.concat es2) = None.
Proof. exact C03u_reject_revision. Qed.
Theorem C03_reject_embedded_space : forall x, has_space_u (trim_space_u x) = true -> parse_u x = None.
Proof. exact C03u_reject_embedded. Qed.
Theorem C03_reject_blank : forall es, Forall space_enc es -> parse_u (List.concat es) = None.
Proof. exact C03u_reject_blank. Qed.
Print Assumptions C03_reject_alphabet.
Print Assumptions C03_reject_bad_epoch.
Print Assumptions C03_reject_revision_alphabet.

(* for every string the parser accepts, the rendering parses to the same value *)
Theorem C03_roundtrip : forall x v, parse_u x = Some v -> parse_u (to_string v) = Some v.
Proof. exact C03u_roundtrip. Qed.
Print Assumptions C03_roundtrip.

(* StringWithoutEpoch: String is the epoch prefix (when needed) followed by it; for every accepted string whose upstream
   part has no colon it parses back to the same version with epoch 0 - nothing but the epoch is lost; a parsed version
   is never Empty() *)
Theorem C03_string_is_epoch_and_rest : forall v,
  to_string v = without_epoch v \/ to_string v = itoa (epoch v) ++ colon :: without_epoch v.
Proof. exact to_string_split. Qed.
Theorem C03_without_epoch_roundtrip : forall x v, parse_u x = Some v -> contains colon (upstream v) = false ->
  parse (without_epoch v) = Some (drop_epoch v).
Proof. exact without_epoch_of_parsed. Qed.
Theorem C03_parsed_not_empty : forall x v, parse_u x = Some v -> is_empty v = false.
Proof. exact parsed_not_empty. Qed.
Print Assumptions C03_without_epoch_roundtrip.

(* non-vacuity and the literal near-misses *)
Example C03_accepts : parse_u (s " 1:2.0-3~x ") = Some {| epoch := 1; upstream := s "2.0"; revision := s "3~x" |}
  /\ parse_u (s "0:1:2") = Some {| epoch := 0; upstream := s "1:2"; revision := [] |}
  /\ to_string {| epoch := 0; upstream := s "1:2"; revision := [] |} = s "0:1:2"
  /\ parse_u (s "1-2-") = Some {| epoch := 0; upstream := s "1-2"; revision := [] |}
  /\ to_string {| epoch := 0; upstream := s "1-2"; revision := [] |} = s "1-2-".
Proof. vm_compute. repeat split. Qed.
Example C03_near_misses : forall x, In x (map s ["a:0-0"; "-1:0-1"; "18446744073709551616:0-1"; "+1:1.0"; "-0:1.0"; "+0:1.0-1"; "1:"; "0:0 0-1"; "a1"; "0:abc3-0"; "1.0_2"; "1.0-1_2"; "0:0-0:0"; "-"; "1:-"]%string) -> parse_u x = None.
Proof. intros x H. repeat (destruct H as [<-|H]; [vm_compute; reflexivity|]). contradiction. Qed.
