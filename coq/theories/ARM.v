(* C11, the checksum line of a signature armor.  golang.org/x/crypto's armor reader takes a line of five bytes that
   starts with '=' for the checksum line; where its four characters are base64 for FEWER than three bytes ("=LwA=")
   it goes on as if the line were not there, and no checksum is compared at all (the r13 finding
   armor-crc-line-malformed).  Since /repo 5d22f1c control.armorChecksumLineOK refuses such a document before the
   armor reader sees it (rewritten after the r15 hunt: any such line behind the beginning of the signature).  Here: that function (armor_ok), base64 on one quantum of four characters as
   encoding/base64 decodes it (decode4), the armor reader's three ways with a candidate line (xline), the CRC-24 and
   the checksum line the library WRITES - and the theorems: a line the check lets through is never skipped by the
   reader, a line the reader would skip is refused, the line the library writes for any data is let through. *)
From Coq Require Import List Ascii String Bool Arith NArith Lia.
Require Import GS.
Import ListNotations.
Open Scope N_scope.

(* ---- base64, the standard alphabet ---- *)
Definition b64val (c : ascii) : option N :=
  let n := N_of_ascii c in
  if (65 <=? n) && (n <=? 90) then Some (n - 65)
  else if (97 <=? n) && (n <=? 122) then Some (n - 71)
  else if (48 <=? n) && (n <=? 57) then Some (n + 4)
  else if n =? 43 then Some 62
  else if n =? 47 then Some 63
  else None.
Definition b64chr (v : N) : ascii :=
  ascii_of_N (if v <? 26 then v + 65 else if v <? 52 then v + 71 else if v <? 62 then v - 4 else if v =? 62 then 43 else 47).
Definition pad : ascii := "="%char.
Definition is_crlf (c : ascii) : bool := ceq c nl || ceq c cr.

(* base64.StdEncoding.Decode of exactly four characters: Some n = n bytes and no error, None = an error.
   (CR and LF are skipped by the decoder: four of them are no data and no error - found by the tie, the first version of
   this model said "error" -, fewer leave something that is never a whole quantum.) *)
Definition decode4 (a b c d : ascii) : option nat :=
  if is_crlf a && is_crlf b && is_crlf c && is_crlf d then Some 0%nat else
  if is_crlf a || is_crlf b || is_crlf c || is_crlf d then None else
  match b64val a, b64val b with
  | Some _, Some _ =>
      match b64val c, b64val d with
      | Some _, Some _ => Some 3%nat
      | Some _, None => if ceq d pad then Some 2%nat else None
      | None, _ => if ceq c pad && ceq d pad then Some 1%nat else None
      end
  | _, _ => None
  end.

(* ---- the armor reader (lineReader.Read) on a line: is it taken for the checksum line, and what then ---- *)
Inductive xres := NotCandidate | Checksum | Corrupt | Skipped.
Definition xline (l : str) : xres :=
  match l with
  | e :: a :: b :: c :: d :: [] =>
      if ceq e pad then
        match decode4 a b c d with Some 3%nat => Checksum | Some _ => Skipped | None => Corrupt end
      else NotCandidate
  | _ => NotCandidate
  end.

(* ---- control.armorChecksumLineOK ---- *)
Definition line_ok (l : str) : bool :=
  match l with
  | e :: a :: b :: c :: d :: [] =>
      if ceq e pad then match decode4 a b c d with Some 3%nat => true | _ => false end else true
  | _ => true
  end.
Definition trim_cr (l : str) : str :=
  match rev l with c :: r => if ceq c cr then rev r else l | [] => l end.
Fixpoint prefix (p x : str) : bool :=
  match p, x with
  | [], _ => true
  | a :: p', b :: x' => ceq a b && prefix p' x'
  | _ :: _, [] => false
  end.
(* bytes.HasPrefix(x, p), or else bytes.Index(x, "\n" + p) + 1: the part of x from the first occurrence of p at the
   beginning of a line on *)
Fixpoint from_first_line (p x : str) (line_start : bool) : option str :=
  match x with
  | [] => None
  | c :: r => if line_start && prefix p x then Some x else from_first_line p r (ceq c nl)
  end.
Definition message_marker : str := s "-----BEGIN PGP SIGNED MESSAGE-----".
Definition signature_marker : str := s "-----BEGIN PGP SIGNATURE-----".
Definition skipped (l : str) : bool := match xline l with Skipped => true | _ => false end.
(* behind the line that begins the signature of the clearsigned message, no line may be one the armor reader skips -
   wherever that reader takes the headers to end, the body to end or another block to begin (the first version of this
   function parsed the armor in its own way - headers up to the first EMPTY line, from the LAST marker on - and the r15
   hunt found the two differences at once: a header end of one blank, a second marker behind the bad line) *)
Fixpoint sig_ok (insig : bool) (ls : list str) : bool :=
  match ls with
  | [] => true
  | l :: r => if insig then negb (skipped l) && sig_ok true r else sig_ok (prefix signature_marker l) r
  end.
Definition armor_ok (armored : str) : bool :=
  match from_first_line message_marker armored true with
  | None => true
  | Some t => sig_ok false (map trim_cr (split nl t))
  end.

(* ---- what the check is for ---- *)
Theorem let_through_is_never_skipped l : line_ok l = true -> xline l <> Skipped.
Proof.
  unfold line_ok, xline. destruct l as [|e [|a [|b [|c [|d [|x r]]]]]]; try discriminate.
  destruct (ceq e pad); [|discriminate]. destruct (decode4 a b c d) as [[|[|[|[|n]]]]|]; discriminate.
Qed.
Theorem skipped_is_refused l : xline l = Skipped -> line_ok l = false.
Proof.
  intros H. destruct (line_ok l) eqn:E; [|reflexivity]. exfalso. exact (let_through_is_never_skipped l E H).
Qed.
(* the other way round: the check refuses nothing the reader would have taken for a checksum or for data *)
Theorem refused_is_skipped_or_corrupt l : line_ok l = false -> xline l = Skipped \/ xline l = Corrupt.
Proof.
  unfold line_ok, xline. destruct l as [|e [|a [|b [|c [|d [|x r]]]]]]; try discriminate.
  destruct (ceq e pad); [|discriminate]. destruct (decode4 a b c d) as [[|[|[|[|n]]]]|]; try discriminate; auto.
Qed.
Lemma skipped_iff l : skipped l = true <-> xline l = Skipped.
Proof. unfold skipped. destruct (xline l); split; congruence. Qed.
Lemma sig_ok_in_signature : forall ls, sig_ok true ls = true -> forall l, In l ls -> xline l <> Skipped.
Proof.
  induction ls as [|l0 r IH]; intros H l Hin; [contradiction|]. cbn [sig_ok] in H. apply andb_true_iff in H as [H1 H2].
  destruct Hin as [<-|Hin]; [|now apply IH]. intros X. apply skipped_iff in X. rewrite X in H1. discriminate.
Qed.
(* the whole check: in a document that is let through, no line behind the first line that begins the signature is one the
   armor reader skips *)
Theorem armor_ok_no_skipped_line armored t : armor_ok armored = true -> from_first_line message_marker armored true = Some t ->
  forall pre l0 post, map trim_cr (split nl t) = pre ++ l0 :: post -> (forall l, In l pre -> prefix signature_marker l = false) ->
  prefix signature_marker l0 = true -> forall l, In l post -> xline l <> Skipped.
Proof.
  unfold armor_ok. intros H F. rewrite F in H. intros pre l0 post E N P l Hin. rewrite E in H. clear E F.
  induction pre as [|x pre IH]; cbn [app sig_ok] in H.
  - rewrite P in H. exact (sig_ok_in_signature post H l Hin).
  - rewrite (N x (or_introl eq_refl)) in H. apply IH; [exact H|]. intros y Hy. apply N. now right.
Qed.
(* ... and it refuses nothing else: a document is refused only for a line the reader would skip *)
Theorem armor_refused_for_a_skipped_line : forall ls, sig_ok true ls = false -> exists l, In l ls /\ xline l = Skipped.
Proof.
  induction ls as [|l0 r IH]; [discriminate|]. cbn [sig_ok]. destruct (skipped l0) eqn:S; cbn [negb andb].
  - intros _. exists l0. split; [now left|now apply skipped_iff].
  - intros H. destruct (IH H) as (l&I&X). exists l. split; [now right|exact X].
Qed.

(* ---- the line the library writes: CRC-24 (RFC 4880, 6.1) and base64 of its three bytes ---- *)
Definition crc24_init : N := 11994318.        (* 0xB704CE *)
Definition crc24_poly : N := 25578747.        (* 0x1864CFB *)
Fixpoint crc_bits (n : nat) (crc : N) : N :=
  match n with
  | O => crc
  | S k => let c := N.shiftl crc 1 in crc_bits k (if N.testbit c 24 then N.lxor c crc24_poly else c)
  end.
Definition crc_byte (crc : N) (b : N) : N := crc_bits 8 (N.lxor crc (N.shiftl b 16)).
Definition crc24 (data : list N) : N := N.land (fold_left crc_byte data crc24_init) 16777215.
Definition sextet (v : N) (k : N) : N := N.land (N.shiftr v (6 * k)) 63.
Definition checksum_line (data : list N) : str :=
  let v := crc24 data in [pad; b64chr (sextet v 3); b64chr (sextet v 2); b64chr (sextet v 1); b64chr (sextet v 0)].

Lemma b64val_chr_all : forallb (fun v => match b64val (b64chr v) with Some w => N.eqb w v | None => false end)
                               (map N.of_nat (List.seq 0 64)) = true.
Proof. vm_compute. reflexivity. Qed.
Lemma b64val_chr v : v < 64 -> b64val (b64chr v) = Some v.
Proof.
  intros H. pose proof b64val_chr_all as A. rewrite forallb_forall in A.
  assert (I : In v (map N.of_nat (List.seq 0 64))).
  { apply in_map_iff. exists (N.to_nat v). split; [apply N2Nat.id|]. apply in_seq. lia. }
  specialize (A v I). destruct (b64val (b64chr v)) as [w|]; [|discriminate]. apply N.eqb_eq in A. now subst.
Qed.
Lemma b64chr_not_crlf_all : forallb (fun v => negb (is_crlf (b64chr v))) (map N.of_nat (List.seq 0 64)) = true.
Proof. vm_compute. reflexivity. Qed.
Lemma b64chr_not_crlf v : v < 64 -> is_crlf (b64chr v) = false.
Proof.
  intros H. pose proof b64chr_not_crlf_all as A. rewrite forallb_forall in A.
  assert (I : In v (map N.of_nat (List.seq 0 64))).
  { apply in_map_iff. exists (N.to_nat v). split; [apply N2Nat.id|]. apply in_seq. lia. }
  specialize (A v I). now apply negb_true_iff in A.
Qed.
Lemma sextet_lt v k : sextet v k < 64.
Proof.
  unfold sextet. change 63 with (N.ones 6). rewrite N.land_ones. apply N.mod_lt. discriminate.
Qed.
(* the repair refuses no armor the library writes, whatever the data *)
Theorem written_checksum_line_is_let_through data : line_ok (checksum_line data) = true /\ xline (checksum_line data) = Checksum.
Proof.
  unfold checksum_line, line_ok, xline. set (v := crc24 data).
  assert (D : decode4 (b64chr (sextet v 3)) (b64chr (sextet v 2)) (b64chr (sextet v 1)) (b64chr (sextet v 0)) = Some 3%nat).
  { unfold decode4. rewrite !b64chr_not_crlf by apply sextet_lt. cbn [orb]. now rewrite !b64val_chr by apply sextet_lt. }
  change (ceq pad pad) with true. cbv iota. now rewrite D.
Qed.

(* examples: the finding's lines *)
Example lines : xline (s "=LwA9") = Checksum /\ xline (s "=LwA=") = Skipped /\ xline (s "=Lw==") = Skipped /\
                xline (s "=L===") = Corrupt /\ xline (s "=LwA9x") = NotCandidate /\
                line_ok (s "=LwA9") = true /\ line_ok (s "=LwA=") = false /\ line_ok (s "=Lw==") = false /\ line_ok (s "iQEz") = true.
Proof. vm_compute. repeat split. Qed.
(* RFC 4880 has no test vector for the CRC; the empty input gives the initial value *)
Example crc24_empty : crc24 [] = crc24_init. Proof. reflexivity. Qed.
Print Assumptions let_through_is_never_skipped.
Print Assumptions armor_ok_no_skipped_line.
Print Assumptions armor_refused_for_a_skipped_line.
Print Assumptions written_checksum_line_is_let_through.
