(* C16 - debsig verification covers the package content that was actually loaded.
   Property theorems only.  Model: D16.check_debsig = Deb.CheckDebsig (looks up _gpg<role> and debian-binary,
   scans the member map - independently of the loader: pickS - for the control.* and data.* members, verifies
   the detached signature over the concatenation).  ORACLES: pgp_verify = openpgp.CheckDetachedSignature, and
   those of C14. *)
From Coq Require Import List Ascii String Bool Arith Lia.
Require Import GS D16.
Import ListNotations.

Section C16.
  Variables keyring entity ctl : Type.
  Variable pgp_verify : keyring -> str -> str -> option entity.
  Variable untar : str -> option (list (str * str)).
  Variable decompress : str -> str -> option str.
  Variable path_clean : str -> str.
  Variable decode_control : str -> option ctl.
  Variable ext_of : str -> str.
  Variable is_tarfile : str -> bool.
  Variables pick pickS : list member -> option member.
  Hypothesis pick_in : forall l m, pick l = Some m -> In m l.
  Hypothesis pickS_in : forall l m, pickS l = Some m -> In m l.
  Notation load := (load_deb ctl untar decompress path_clean decode_control ext_of is_tarfile pick).
  Notation check := (check_debsig keyring entity ctl pgp_verify pickS).

  (* verification succeeds only if _gpg<role> is a valid signature, by a key of the keyring, over
     debian-binary ++ control member ++ data member - the very members whose content the loader decoded into
     the control fields and the payload listing *)
  Theorem C16_verified_content_is_loaded_content : forall ms d kr role e, load ms = Some d -> check kr role d = Some e ->
    exists sg b, lookup (s "_gpg" ++ role) ms = Some sg /\ lookup binary_name ms = Some b /\
      pgp_verify kr (b ++ d_control_bytes ctl d ++ d_data_bytes ctl d) sg = Some e /\
      (exists cn ctar cfiles text, In (cn, d_control_bytes ctl d) ms /\ decompress (ext_of cn) (d_control_bytes ctl d) = Some ctar /\
         untar ctar = Some cfiles /\ find_control_entry path_clean cfiles = Some text /\ decode_control text = Some (d_control ctl d)) /\
      (exists dn dtar, In (dn, d_data_bytes ctl d) ms /\ decompress (ext_of dn) (d_data_bytes ctl d) = Some dtar /\
         untar dtar = Some (d_data_files ctl d)).
  Proof. apply C16_sound; assumption. Qed.

  (* a second control.* or data.* member, or a repeated member name, makes loading fail *)
  Theorem C16_decoy_members_rejected : forall ms,
    1 < List.length (with_prefix (s "control.") ms) \/ 1 < List.length (with_prefix (s "data.") ms) \/ dup_names ms = true ->
    load ms = None.
  Proof. apply C16_decoy_rejected. Qed.

  (* a role that is not present, or a signature the keyring does not verify, makes verification fail *)
  Theorem C16_missing_role : forall kr role d, lookup (s "_gpg" ++ role) (d_members ctl d) = None -> check kr role d = None.
  Proof. exact (C16_no_role keyring entity ctl pgp_verify pickS). Qed.
  Theorem C16_unverified : forall kr role d, (forall x sg, pgp_verify kr x sg = None) -> check kr role d = None.
  Proof. exact (C16_not_verified keyring entity ctl pgp_verify pickS). Qed.
End C16.
Print Assumptions C16_verified_content_is_loaded_content.
Print Assumptions C16_decoy_members_rejected.
Print Assumptions C16_unverified.
