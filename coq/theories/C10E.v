(* C10, the document level: the typed parser applied to a TEXT is the field-by-field decoder applied to the first
   paragraph that the deb822 reader (C07) returns for that text.  Together with the reader theorems (which say what
   the paragraphs of a rendered document are) and the per-kind decoder theorems (lists, versions, dependencies) this
   is the statement "the typed parser returns exactly the model", factored at the paragraph. *)
From Coq Require Import List Ascii String Bool Arith Lia.
Require Import GS R2 R2u SchemaDefs C9G C9F CX.
Import ListNotations.

Lemma read_all_first x p ps : R2.read_all x = Some (p :: ps) -> exists rest, R2.next R2.empty_para [] (lines_of x) = R2.RPara p rest.
Proof.
  unfold R2.read_all. cbn [R2.all_fuel]. destruct (R2.next R2.empty_para [] (lines_of x)) as [p' rest| |]; try discriminate.
  destruct (R2.all_fuel _ rest); cbn [option_map]; [|discriminate]. intros E. inversion E; subst. now exists rest.
Qed.

(* decode_text succeeds with r exactly when the text has a first paragraph in which every schema field decodes to
   its component of r (absent optional fields giving the zero value, absent required fields none) *)
Theorem C10_text_pointwise_u sch text r :
  CX.decode_text sch text = Some r <->
  exists p rest, R2u.next_u R2.empty_para [] (lines_of text) = R2.RPara p rest /\
                 Forall2 (C9F.field_spec_fold CX.fd CX.cval CX.czero CX.cdecode (R2.values p)) (CX.gschema sch) r.
Proof.
  unfold CX.decode_text, CX.decode_para. split.
  - destruct (R2u.next_u R2.empty_para [] (lines_of text)) as [p rest| |]; try discriminate.
    intros E. exists p, rest. split; [reflexivity|]. now apply CX.CX_decode_fold_pointwise.
  - intros (p&rest&E&F). rewrite E. now apply CX.CX_decode_fold_pointwise.
Qed.

(* on text without non-ASCII Unicode space encodings, in terms of the reader of the C07 theorems *)
Theorem C10_document sch text p ps r : Forall R2u.uclean (lines_of text) -> R2.read_all text = Some (p :: ps) ->
  (CX.decode_text sch text = Some r <->
   Forall2 (C9F.field_spec_fold CX.fd CX.cval CX.czero CX.cdecode (R2.values p)) (CX.gschema sch) r).
Proof.
  intros U RA. destruct (read_all_first text p ps RA) as (rest&N).
  rewrite C10_text_pointwise_u. rewrite (R2u.next_u_clean _ _ _ U), N. split.
  - intros (p'&rest'&E&F). inversion E; subst. exact F.
  - intros F. now exists p, rest.
Qed.
(* a required field that the first paragraph lacks makes the typed parser fail *)
Theorem C10_required_field_missing sch text p ps f : Forall R2u.uclean (lines_of text) -> R2.read_all text = Some (p :: ps) ->
  In f (CX.gschema sch) -> C9G.frequired CX.fd f = true -> C9F.lookup_fold (C9G.fkey CX.fd f) (R2.values p) = None ->
  CX.decode_text sch text = None.
Proof.
  intros U RA Hin Hr Hl. destruct (CX.decode_text sch text) as [r|] eqn:E; [|reflexivity]. exfalso.
  apply (C10_document sch text p ps r U RA) in E. clear RA U.
  induction E as [|g v gs vs Hs _ IH]; [contradiction|]. destruct Hin as [->|Hin]; [|now apply IH].
  unfold C9F.field_spec_fold in Hs. rewrite Hl in Hs. destruct Hs as [Hs _]. congruence.
Qed.
Print Assumptions C10_document.
Print Assumptions C10_required_field_missing.
