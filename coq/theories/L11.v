(* C09: list-valued fields — marshalStructValueSlice then decodeStructValueSlice is the identity *)
From Coq Require Import List Ascii String Bool Arith Lia.
Require Import GS L10.
Import ListNotations.

Section ListCodec.
  Variable d : ascii.
  Variable strip : ascii -> bool.
  Hypothesis d_not_strip : strip d = false.

  (* strings.Join(elements, delim) with a one-byte delim tag *)
  Definition marshal_list (es : list str) : str := join [d] es.

  Lemma render_plain : forall es, render_list d (map (fun e => ([], e, [])) es) = join [d] es.
  Proof.
    induction es as [|e r IH]; [reflexivity|]. destruct r as [|e2 r'].
    - cbn. unfold padded. cbn. now rewrite app_nil_r.
    - change (map (fun e => ([], e, [])) (e :: e2 :: r')) with (([] : str, e, [] : str) :: map (fun e => ([], e, [])) (e2 :: r')).
      cbn [map] in *. change (render_list d (([], e, []) :: ([], e2, []) :: map (fun e0 : str => ([], e0, [])) r'))
        with (padded [] e [] ++ d :: render_list d (([], e2, []) :: map (fun e0 : str => ([], e0, [])) r')).
      rewrite IH. unfold padded. cbn [app]. rewrite app_nil_r. reflexivity.
  Qed.

  (* C09 for []string fields: EVERY list of elements that contain no delimiter and no leading/trailing stripped byte survives
     Marshal -> Unmarshal - the empty list included (an empty value has no elements: repair of the r12 finding, before which
     this theorem needed es <> []) - except the one list that is written like the empty list: a single empty element *)
  Theorem C09_list_roundtrip es : es <> [[]] -> Forall (elt_ok d strip) es ->
    decode_list d strip (marshal_list es) = es.
  Proof.
    intros NS W. destruct es as [|e0 r0]; [reflexivity|].
    unfold marshal_list. rewrite <- render_plain.
    rewrite (C10_list_field d strip d_not_strip).
    - rewrite map_map. cbn [fst snd]. apply map_id.
    - discriminate.
    - apply Forall_map. eapply Forall_impl; [|exact W]. intros e He. cbn.
      split; [split; constructor|split; [split; constructor|exact He]].
    - rewrite render_plain. destruct r0 as [|e1 r1].
      + cbn [join]. destruct e0 as [|c0 t0]; [congruence|]. inversion W as [|? ? [Hf Hl Ht] _]; subst.
        apply (trim_ne_of_mem strip (c0 :: t0) c0); [now left|]. exact Hl.
      + apply (trim_ne_of_mem strip _ d); [|exact d_not_strip]. cbn [join]. apply in_or_app. right. now left.
  Qed.

  (* the empty list marshals to the empty string, which an optional field omits *)
  Lemma marshal_list_nil : marshal_list [] = [].
  Proof. reflexivity. Qed.
End ListCodec.
Print Assumptions C09_list_roundtrip.
