"""Shared machinery of the checks: builds, runners, comparison, evidence, reporting.

Every check (./check Cxx) does, in this order:
  1. make the Coq development (no-op when up to date) and re-run coqc on theories/Cxx.v,
     the file that holds nothing but the property's theorems and Print Assumptions;
  2. re-extract/compile the OCaml model runner when the models changed;
  3. build the Go harness against /repo's *current working tree*;
  4. generate cases from one seeded PRNG, run them through implementation and model,
     compare the projected observables, evaluate the property predicate on the
     implementation's answers;
  5. evaluate a sample of the cases inside Coq (vm_compute) against the extracted runner;
  6. write evidence/Cxx.json, print KNOWN-FINDING / VIOLATION lines, exit 0 / 1.
"""
import hashlib
import json
import os
import random
import re
import subprocess
import sys
import time

ROOT = os.path.dirname(os.path.dirname(os.path.abspath(__file__)))
# The registered commands use none of these overrides: REPO is /repo, everything is built under ROOT/build and the
# evidence goes to ROOT/evidence.  The overrides exist so that the seeded-change regression can run many checks in
# parallel, each against its own scratch worktree (VERIF_REPO), with its own Go binaries (VERIF_BUILD) and its own
# evidence / replay directory (VERIF_OUT); the Coq development and the extracted model runner are shared, read-only.
REPO = os.environ.get("VERIF_REPO", "/repo")
ALT = REPO != "/repo" and not os.environ.get("VERIF_OWN_DEV")      # (VERIF_OWN_DEV: a full copy of /verif working on another tree rebuilds its own development)
MBUILD = os.path.join(ROOT, "build")
BUILD = os.environ.get("VERIF_BUILD", MBUILD)
OUT = os.environ.get("VERIF_OUT", ROOT)
COQ = os.path.join(ROOT, "coq")
THEORIES = os.path.join(COQ, "theories")
GEN = os.path.join(COQ, "gen")
QARGS = ["-Q", THEORIES, "", "-Q", GEN, ""]
GOENV = dict(os.environ, GOFLAGS="-mod=mod", GOPROXY="off", GOSUMDB="off", GOTOOLCHAIN="local",
             CGO_ENABLED=os.environ.get("CGO_ENABLED", "0"))


class Infra(Exception):
    """The machinery itself could not run (exit 2) - never reported as a violation."""


def sh(cmd, cwd=None, env=None, timeout=3600, inp=None):
    p = subprocess.run(cmd, cwd=cwd, env=env, input=inp, stdout=subprocess.PIPE,
                       stderr=subprocess.STDOUT, timeout=timeout, shell=isinstance(cmd, str))
    return p.returncode, p.stdout.decode("utf-8", "replace")


# ---------------------------------------------------------------- builds

class build_lock:
    """the shared Coq development and model runner are (re)built by one process at a time"""
    def __enter__(self):
        import fcntl
        os.makedirs(MBUILD, exist_ok=True)
        self.f = open(os.path.join(MBUILD, ".lock"), "w")
        fcntl.flock(self.f, fcntl.LOCK_EX)
    def __exit__(self, *a):
        import fcntl
        fcntl.flock(self.f, fcntl.LOCK_UN); self.f.close()


def coq_make():
    with build_lock():
        return _coq_make()


def build_model():
    with build_lock():
        return _build_model()


def _coq_make():
    """Full .vo build of the development (coq_makefile + make); no-op when up to date."""
    files = sorted(f for f in os.listdir(THEORIES) if f.endswith(".v") and f != "Extract.v")
    files += sorted("gen/" + f for f in os.listdir(os.path.join(COQ, "gen")) if f.endswith(".v")) if os.path.isdir(os.path.join(COQ, "gen")) else []
    proj = '-Q theories ""\n' + ('-Q gen ""\n' if any(f.startswith("gen/") for f in files) else "") + \
        "".join(("theories/" + f if not f.startswith("gen/") else f) + "\n" for f in files)
    pp = os.path.join(COQ, "_CoqProject")
    if not os.path.exists(pp) or open(pp).read() != proj or not os.path.exists(os.path.join(COQ, "Makefile")):
        open(pp, "w").write(proj)
        rc, out = sh("coq_makefile -f _CoqProject -o Makefile", cwd=COQ)
        if rc != 0:
            raise Infra("coq_makefile failed:\n" + out)
    rc, out = sh("timeout 3000 make -j16 -k", cwd=COQ, timeout=3100)
    return rc, out


# ---- which model files a property's theorems rest on, and which generated constants are about which model
CONST_MODEL = {"blank": "D3", "possi_cases": "D3", "multiarch_stop": "D3", "controllers_cases": "D3", "number_cases": "D3", "arch_cases": "D3",
               "stage_cases": "D3", "substvar_cases": "D3", "ar_columns": "AR", "ar_magic": "AR", "ar_header_len": "AR", "when_layout": "DATE",
               "deb_versions": "D16", "copy_open_flags": "U20", "copy_removes_first": "U20"}
# properties whose tie decodes or encodes through the regenerated struct schemas (Run.v: Schema_gen), besides those whose
# theorems Require it
SCHEMA_USERS = {"C09", "C10", "C14", "C15", "C16", "C18", "C19"}


def require_closure(pid):
    """the modules the property file (and its witness file) Require, transitively - by reading the sources"""
    seen = set()

    def walk(mod):
        path = os.path.join(THEORIES, mod + ".v")
        if not os.path.exists(path):
            path = os.path.join(GEN, mod + ".v")
        if mod in seen or not os.path.exists(path):
            return
        seen.add(mod)
        for m in re.finditer(r"^\s*(?:From\s+\S+\s+)?Require\s+(?:Import\s+|Export\s+)?([^.]*)\.", open(path).read(), re.M):
            for w in m.group(1).split():
                walk(w)
    walk(pid)
    walk(pid + "w")
    return seen


def relevant_modules(pid):
    """the closure plus, for every model in it that has one, the file that proves its tables equal to the source's"""
    mods = require_closure(pid)
    return mods | {"SRC_" + m for m in mods if os.path.exists(os.path.join(THEORIES, "SRC_" + m + ".v"))}


def failed_modules(make_out):
    """the files a keep-going make could not build"""
    return set(re.findall(r"\*\*\* \[[^\]]*?(?:theories|gen)/(\w+)\.vo\] Error", make_out)) | \
        set(re.findall(r'^File "\./(?:theories|gen)/(\w+)\.v", line', make_out, re.M))


def consts_defs(text):
    return dict(re.findall(r"^Definition (\w+) : [^:=]*:= (.*)\.$", text or "", re.M))


def newest_mtime(paths):
    return max((os.path.getmtime(p) for p in paths if os.path.exists(p)), default=0)


def _build_model():
    """Extract Run.run (Separate Extraction) and compile ocaml/modelrun.ml with it."""
    odir = os.path.join(MBUILD, "ocaml")
    exe = os.path.join(odir, "modelrun")
    srcs = [os.path.join(THEORIES, f) for f in os.listdir(THEORIES) if f.endswith(".vo")]
    srcs += [os.path.join(GEN, f) for f in os.listdir(GEN) if f.endswith(".vo")] if os.path.isdir(GEN) else []
    srcs += [os.path.join(ROOT, "ocaml", "modelrun.ml"), os.path.join(THEORIES, "Extract.v")]
    if os.path.exists(exe) and os.path.getmtime(exe) >= newest_mtime(srcs):
        return exe
    os.makedirs(odir, exist_ok=True)
    # build in a scratch directory and move the executable into place in one step: a check that is running the
    # previous runner at this moment (another property, started by hand or by a parallel script) never sees it missing
    import shutil, tempfile
    tmp = tempfile.mkdtemp(prefix="extract-", dir=MBUILD)
    try:
        rc, out = sh(["coqc"] + QARGS + [os.path.join(THEORIES, "Extract.v")], cwd=tmp, timeout=900)
        if rc != 0:
            raise Infra("extraction failed:\n" + out[-3000:])
        sh(["cp", os.path.join(ROOT, "ocaml", "modelrun.ml"), tmp])
        rc, out = sh("ocamlfind ocamlopt -w -a $(ocamldep -sort *.ml *.mli) -o modelrun", cwd=tmp, timeout=900)
        if rc != 0:
            raise Infra("ocaml build failed:\n" + out[-3000:])
        os.replace(os.path.join(tmp, "modelrun"), exe)
    finally:
        shutil.rmtree(tmp, ignore_errors=True)
    return exe


def harness_dir():
    """the harness module; for a scratch worktree a copy whose go.mod replaces the library with that worktree"""
    hdir = os.path.join(ROOT, "harness")
    if not ALT:
        return hdir
    cdir = os.path.join(BUILD, "harness")
    sh(["rm", "-rf", cdir]); os.makedirs(BUILD, exist_ok=True)
    sh(["cp", "-r", hdir, cdir])
    gm = os.path.join(cdir, "go.mod")
    text = open(gm).read().replace("=> /repo", "=> " + REPO)
    open(gm, "w").write(text)
    return cdir


def build_race_harness():
    """the same harness built with the race detector (needs cgo), used by C18 in concurrent mode"""
    hdir = os.path.join(BUILD, "harness") if ALT else os.path.join(ROOT, "harness")
    exe = os.path.join(BUILD, "implrun-race")
    env = dict(GOENV, CGO_ENABLED="1")
    rc, out = sh(["go", "build", "-race", "-tags", harness_tags(), "-o", exe, "./cmd/implrun"], cwd=hdir, env=env, timeout=1800)
    if rc != 0:
        raise Infra("the race-detector build of the harness failed:\n" + out[-3000:])
    return exe


def harness_tags():
    """verif, plus armorhook where /repo carries the verif-tagged hook file the harness op armorok goes through (a tree from
    before that commit builds without the op)"""
    return "verif,armorhook" if os.path.exists(os.path.join(REPO, "control", "verif_hooks.go")) else "verif"


def build_harness_386():
    """the same harness for a platform whose uint is 32 bits (GOARCH=386, no cgo): used by the version checks, whose Epoch field is
    a uint.  Returns None when such a binary cannot be built or run here (the stream is then skipped, with a note)."""
    hdir = os.path.join(BUILD, "harness") if ALT else os.path.join(ROOT, "harness")
    exe = os.path.join(BUILD, "implrun386")
    env = dict(GOENV, GOARCH="386", CGO_ENABLED="0")
    rc, out = sh(["go", "build", "-tags", harness_tags(), "-o", exe, "./cmd/implrun"], cwd=hdir, env=env, timeout=900)
    if rc != 0:
        return None
    try:
        if run_lines(exe, [("vparse", [b"1:1.0"])]) != ["ok 1 x312e30 x"]:
            return None
    except Exception:
        return None
    return exe


def run_concurrent(exe, cases, timeout=3600):
    """all cases in one process: 3 sequential runs each, then 16 goroutines running all of them at once"""
    data = ("\n".join(enc_case(c) for c in cases) + "\n").encode()
    env = dict(os.environ, VERIF_MODE="concurrent", GORACE="halt_on_error=0")
    p = subprocess.run([exe], input=data, stdout=subprocess.PIPE, stderr=subprocess.PIPE, env=env, timeout=timeout)
    lines = p.stdout.decode("ascii", "replace").split("\n")
    if lines and lines[-1] == "":
        lines.pop()
    return lines, p.stderr.decode("utf-8", "replace"), p.returncode


def regen_schema():
    """Regenerate coq/gen/Schema_gen.v from the compiled Go struct types (rewritten only when different)."""
    exe = os.path.join(BUILD, "schemadump")
    rc, out = sh([exe], timeout=120)
    if rc != 0:
        raise Infra("schemadump failed:\n" + out[-2000:])
    os.makedirs(GEN, exist_ok=True)
    path = os.path.join(GEN, "Schema_gen.v")
    old = open(path).read() if os.path.exists(path) else None
    if old != out:
        if ALT:
            # a scratch worktree never rewrites the shared development: the difference itself is reported
            return "differs"
        open(path, "w").write(out)
        return True
    return False


def regen_consts():
    """Regenerate coq/gen/Consts_gen.v from the SOURCE TEXT of the tree under test (dispatch tables, header columns, layouts:
    driver/srcconsts.py); the SRC_ files prove the models' constants equal to it."""
    import srcconsts
    try:
        out = srcconsts.render(srcconsts.extract(REPO)) + "\n"
    except Exception as e:            # (every area is read on its own and drops out on its own; this is a failure of the renderer)
        out = "(* extraction failed: %s *)\n" % str(e).replace("*)", "* )")
    path = os.path.join(GEN, "Consts_gen.v")
    old = open(path).read() if os.path.exists(path) else None
    if old != out:
        if ALT:
            a, b = consts_defs(old), consts_defs(out)
            return sorted(k for k in set(a) | set(b) if a.get(k) != b.get(k)) or (["(unreadable)"] if not (a and b) else False)
        open(path, "w").write(out)
        return True
    return False


def build_harness():
    """go build the harness against /repo's working tree (tag verif)."""
    hdir = harness_dir()
    sh(["cp", os.path.join(REPO, "go.sum"), os.path.join(hdir, "go.sum")])
    os.makedirs(BUILD, exist_ok=True)
    exe = os.path.join(BUILD, "implrun")
    rc, out = sh(["go", "build", "-tags", harness_tags(), "-o", exe, "./cmd/implrun"], cwd=hdir, env=GOENV, timeout=900)
    if rc != 0:
        raise Infra("the Go harness does not build against %s:\n%s" % (REPO, out[-3000:]))
    rc, out = sh(["go", "build", "-tags", harness_tags(), "-o", os.path.join(BUILD, "schemadump"), "./cmd/schemadump"], cwd=hdir, env=GOENV, timeout=900)
    if rc != 0:
        raise Infra("schemadump does not build against %s:\n%s" % (REPO, out[-3000:]))
    return exe


# ---------------------------------------------------------------- runners

def enc_case(case):
    op, args = case
    return op + "".join("\t" + (a if isinstance(a, bytes) else str(a).encode()).hex() for a in args)


def _big_stack():
    """the extracted OCaml uses non-tail-recursive list functions: give it a large stack"""
    import resource
    soft, hard = resource.getrlimit(resource.RLIMIT_STACK)
    want = 4 << 30
    if hard != resource.RLIM_INFINITY:
        want = min(want, hard)
    try:
        resource.setrlimit(resource.RLIMIT_STACK, (want, hard))
    except (ValueError, OSError):
        pass


def run_lines(exe, cases, timeout=3600, shards=16):
    """Run cases through a runner, sharded over processes; returns one result string per case."""
    if not cases:
        return []
    n = len(cases)
    shards = max(1, min(shards, n // 200 + 1))
    chunks = [cases[i * n // shards:(i + 1) * n // shards] for i in range(shards)]
    procs = []
    for ch in chunks:
        data = ("\n".join(enc_case(c) for c in ch) + "\n").encode()
        p = subprocess.Popen([exe], stdin=subprocess.PIPE, stdout=subprocess.PIPE, stderr=subprocess.PIPE, preexec_fn=_big_stack)
        procs.append((p, data, len(ch)))
    # feed and collect with threads to avoid pipe deadlock
    import threading
    results = [None] * len(procs)

    def work(i):
        p, data, k = procs[i]
        try:
            out, err = p.communicate(data, timeout=timeout)
        except subprocess.TimeoutExpired:
            p.kill()
            out, err = p.communicate()
        lines = out.decode("ascii", "replace").split("\n")
        if lines and lines[-1] == "":
            lines.pop()
        if len(lines) != k:
            # the runner died: mark the missing answers
            lines = lines + ["runner-died(rc=%s)" % p.returncode] * (k - len(lines))
        results[i] = lines[:k]

    ths = [threading.Thread(target=work, args=(i,)) for i in range(len(procs))]
    for t in ths:
        t.start()
    for t in ths:
        t.join()
    return [x for r in results for x in r]


# ---------------------------------------------------------------- known findings

def load_known(pid):
    """known_findings.txt: lines 'known: property=Cxx class=<name> example=<hex> <text>' and
    'fixed: property=Cxx <commit> <text>'.  Only 'known' lines suppress anything."""
    known, fixed = [], []
    path = os.path.join(ROOT, "known_findings.txt")
    if os.path.exists(path):
        for line in open(path):
            line = line.strip()
            if line.startswith("known:") and ("property=%s " % pid) in line + " ":
                m = re.search(r"class=(\S+)\s+example=(\S*)\s+(.*)$", line)
                if m:
                    known.append({"class": m.group(1), "example": m.group(2), "text": m.group(3)})
            elif line.startswith("fixed:") and ("property=%s " % pid) in line + " ":
                fixed.append(line)
    return known, fixed


# ---------------------------------------------------------------- the check object

class Check:
    def __init__(self, pid, tier, seed):
        self.pid = pid
        self.tier = tier
        self.seed = seed
        self.rng = random.Random(seed * 1000003 + int(pid[1:]))
        self.t0 = time.time()
        self.violations = []          # dicts written as replay files
        self.known_hits = {}          # class -> count
        self.known, self.fixed = load_known(pid)
        self.evaluations = 0
        self.distinct = set()
        self.samples = []
        self.streams = {}             # stream name -> stats
        self.notes = []
        self.proof = {"obligations": 0, "discharged": 0, "assumptions": [], "theorems": [], "ok": False, "error": ""}
        self.kernel = {"cases": 0, "mismatches": None}
        self.disagreements = 0
        self.broken = []              # names of theorems/correspondences that no longer check
        self.kernel_pool = []
        self.extra = {}
        self.assumptions = []
        self.trusted = []

    # ---- sizes
    def n(self, quick, thorough=None):
        if self.tier == "thorough":
            return thorough if thorough is not None else quick * 20
        return quick

    # ---- setup
    def clear_replays(self):
        import glob
        for f in glob.glob(os.path.join(OUT, "replays", self.pid + "-*.json")):
            os.unlink(f)

    def prepare(self):
        self.implrun = build_harness()
        keys = os.path.join(MBUILD, "pgpkeys.asc")
        os.environ["VERIF_PGPKEYS"] = keys
        if not os.path.exists(keys):
            r = run_lines(self.implrun, [("csinit", [keys.encode()])])
            if r != ["ok"]:
                raise Infra("could not generate the OpenPGP test keys: %r" % r)
        self.schema_changed = regen_schema()
        closure = require_closure(self.pid)
        if self.schema_changed == "differs" and ("Schema_gen" in closure or self.pid in SCHEMA_USERS):
            self.broken.append("the struct tags dumped from this tree differ from coq/gen/Schema_gen.v (scratch worktree: the shared development is not rebuilt)")
        rcn = regen_consts()
        if isinstance(rcn, list):
            mine = [k for k in rcn if CONST_MODEL.get(k, "?") in closure or k == "(unreadable)" or k not in CONST_MODEL]
            if mine:
                self.broken.append("read from this tree's source text, %s differ(s) from coq/gen/Consts_gen.v, against which SRC_%s.v proves the model's constants (scratch worktree: the shared development is not rebuilt)"
                                   % (", ".join(mine), "/".join(sorted({CONST_MODEL.get(k, "?") for k in mine}))))
        rc, out = coq_make()
        # a keep-going build: a file that no longer compiles is held against the properties whose theorems rest on it (the Require
        # closure of the property file, and the SRC_ files of the models in it) - not against the others
        failed = failed_modules(out) if rc != 0 else set()
        self.make_ok = (rc == 0) or (bool(failed) and not (failed & relevant_modules(self.pid)))
        self.make_out = out
        if rc != 0:
            self.notes.append("coq make failed: " + ", ".join(sorted(failed)) + (" (none of them under this property)" if self.make_ok else ""))
        try:
            self.modelrun = build_model()
        except Infra:
            if self.make_ok:
                raise
            self.modelrun = os.path.join(MBUILD, "ocaml", "modelrun")
            if not os.path.exists(self.modelrun):
                raise

    def check_proofs(self, files=None):
        """Re-run coqc on the property file(s); count theorems, collect Print Assumptions."""
        files = files or [self.pid + ".v"]
        # non-vacuity witnesses (Examples meeting the hypotheses of the property theorems) are checked with them
        if os.path.exists(os.path.join(THEORIES, self.pid + "w.v")) and self.pid + "w.v" not in files:
            files = files + [self.pid + "w.v"]
        ok = self.make_ok
        err = "" if ok else self.make_out[-2000:]
        thms, assum = [], []
        for f in files:
            path = os.path.join(THEORIES, f)
            src = open(path).read()
            names = re.findall(r"^\s*(?:Theorem|Lemma|Corollary)\s+(\w+)", src, re.M)
            if not f.endswith("w.v"):
                thms += names             # witness files hold Examples and helper lemmas, not property theorems
            extra = ["-noglob", "-o", os.path.join(BUILD, f + "o")] if ALT else []     # scratch runs never write into the shared tree
            rc, out = sh(["timeout", "600", "coqc"] + QARGS + extra + [path], cwd=COQ, timeout=700)
            if rc != 0:
                ok = False
                err += out[-2000:]
                continue
            # Print Assumptions output: either "Closed under the global context" or "Axioms:\n..."
            closed = out.count("Closed under the global context")
            ax = re.findall(r"^Axioms:\n((?:.+\n)+)", out, re.M)
            assum.append({"file": f, "closed": closed, "axioms": [a.strip() for a in ax]})
            if ax:
                # the development uses no axiom at all (not even the standard library's)
                ok = False
                err += "Print Assumptions reports axioms in %s: %s" % (f, ax[0][:500])
        # forbidden words anywhere in the development
        rc, out = sh(r"grep -nE '\b(Admitted|admit|Axiom|Parameter|Conjecture|Abort)\b|Unset Guard|bypass_check|type-in-type' "
                     r"theories/*.v | grep -v '^theories/[A-Za-z0-9_]*.v:[0-9]*: *(\*' || true", cwd=COQ)
        if out.strip():
            ok = False
            err += "forbidden construct: " + out[:500]
        chk_out = None
        if ok and self.tier == "thorough":
            # the independent checker over the property file(s) and everything they depend on
            mods = [f[:-2] for f in files]
            rc, out = sh(["timeout", "3000", "coqchk", "-silent", "-o"] + QARGS + mods, cwd=COQ, timeout=3100)
            flat = " ".join(out.split())
            chk_out = {"exit": rc, "axioms_none": "* Axioms: <none>" in flat, "summary": flat[-600:]}
            if rc != 0 or "* Axioms: <none>" not in flat:
                ok = False
                err += "coqchk: " + flat[-1500:]
        self.proof = {"obligations": len(thms), "discharged": len(thms) if ok else 0, "theorems": thms,
                      "assumptions": assum, "ok": ok, "error": err, "coqchk": chk_out}
        if not ok:
            self.broken.append("proof:" + ",".join(files))
        return ok

    # ---- correspondence
    def run_both(self, cases, model_cases=None, timeout=3600):
        impl = run_lines(self.implrun, cases, timeout)
        model = run_lines(self.modelrun, model_cases if model_cases is not None else cases, timeout)
        return impl, model

    def run_impl(self, cases, timeout=3600):
        return run_lines(self.implrun, cases, timeout)

    def run_model(self, cases, timeout=3600):
        return run_lines(self.modelrun, cases, timeout)

    def record(self, stream, cases, results, nontrivial=lambda case, res: not res.startswith("err")):
        """Account for a stream of cases in the evidence."""
        st = self.streams.setdefault(stream, {"cases": 0, "nontrivial": 0, "kinds": {}})
        st["cases"] += len(cases)
        self.evaluations += len(cases)
        for c, r in zip(cases, results):
            kind = r.split(" ", 1)[0][:24]
            st["kinds"][kind] = st["kinds"].get(kind, 0) + 1
            if nontrivial(c, r):
                st["nontrivial"] += 1
                self.distinct.add(hashlib.blake2b(enc_case(c).encode(), digest_size=8).digest())
        if cases and len(self.samples) < 12:
            k = self.rng.randrange(len(cases))
            self.samples.append({"stream": stream, "case": show_case(cases[k]), "impl": results[k][:300]})

    def compare(self, stream, cases, impl, model, classify=None, nontrivial=None, project=None, kernel=True, spec=True):
        """Line-by-line comparison of implementation and model answers.
        classify(case, impl, model) -> None (not a violation of the property: e.g. outside its
        domain), or a dict describing the violation.  Default: every disagreement is one.
        spec=True: the cases lie in the domain where the property fixes the answer and the model's answer is
        that answer (by the theorems), so a disagreeing case is an input on which the property fails.
        spec=False: arbitrary / corrupted inputs on which the property fixes only part of the outcome (the
        module's own predicates judge that part); a disagreement then means that the correspondence no longer
        checks, and is reported with "no-failing-input-found" unless a predicate found a failing input."""
        self.record(stream, cases, impl, nontrivial or (lambda c, r: not r.startswith("err")))
        if kernel:
            for k in range(0, len(cases), max(1, len(cases) // 40)):
                self.kernel_pool.append((cases[k], model[k]))
        for c, i, m in zip(cases, impl, model):
            pi, pm = (project(i), project(m)) if project else (i, m)
            if pi != pm:
                self.disagreements += 1
                v = {"kind": "correspondence" if spec else "correspondence-only", "stream": stream, "case": show_case(c), "impl": i, "model": m}
                if classify:
                    extra = classify(c, i, m)
                    if extra is None:
                        self.notes.append("disagreement outside the property's domain: " + json.dumps(v)[:300])
                        continue
                    v.update(extra)
                self.violate(v)

    def violate(self, v):
        """Register a violation unless it falls in a known-finding class."""
        cls = v.get("class")
        for k in self.known:
            if cls and cls == k["class"]:
                self.known_hits[cls] = self.known_hits.get(cls, 0) + 1
                return
        # (the two kinds are capped separately: correspondence-only disagreements must never crowd out failing inputs)
        same = sum(1 for w in self.violations if (w.get("kind") == "correspondence-only") == (v.get("kind") == "correspondence-only"))
        if same < 50:
            self.violations.append(v)
        else:
            self.extra["violations_not_listed"] = self.extra.get("violations_not_listed", 0) + 1

    # ---- in-kernel sample
    def kernel_sample(self, limit=None):
        limit = limit or self.n(150, 1500)
        pool = self.kernel_pool
        if len(pool) > limit:
            pool = self.rng.sample(pool, limit)
        # keep vm_compute cheap: skip very large cases
        pool = [(c, r) for c, r in pool if len(enc_case(c)) < 30000 and len(r) < 30000]
        if not pool:
            return
        path = os.path.join(BUILD, "kern_%s.v" % self.pid)
        with open(path, "w") as f:
            f.write("From Coq Require Import List String Ascii.\nRequire Import Show Run.\nImport ListNotations.\n"
                    "Open Scope string_scope.\n"
                    "Definition same (a b : list ascii) : bool := if list_eq_dec ascii_dec a b then true else false.\n"
                    "Definition cases : list (nat * string * list string * string) := [\n")
            rows = []
            for idx, (c, r) in enumerate(pool):
                op, args = c
                hexargs = [(a if isinstance(a, bytes) else str(a).encode()).hex() for a in args]
                rows.append('(%d, "%s", [%s], "%s")' % (idx, op, ";".join('"%s"' % h for h in hexargs), coq_escape(r)))
            f.write(";\n".join(rows))
            f.write("].\nDefinition bad := filter (fun c => match c with (i, op, args, want) => "
                    "negb (same (run op (map lit args)) (lit want)) end) cases.\n"
                    "Definition M := Eval vm_compute in (map (fun c => match c with (i,_,_,_) => i end) bad).\nPrint M.\n")
        rc, out = sh(["timeout", "900", "coqc"] + QARGS + [path], cwd=BUILD, timeout=1000)
        for ext in (".vo", ".glob", ".vok", ".vos"):
            try:
                os.unlink(path[:-2] + ext)
            except OSError:
                pass
        self.kernel["cases"] = len(pool)
        if rc != 0:
            self.kernel["mismatches"] = "coqc failed: " + out[-800:]
            self.broken.append("in-kernel sample did not evaluate")
            return
        flat = " ".join(out.split())
        if re.search(r"M = \[\]", flat):
            self.kernel["mismatches"] = 0
        else:
            self.kernel["mismatches"] = flat[:400]
            self.broken.append("extracted runner and vm_compute disagree")

    # ---- reporting
    def finish(self):
        self.kernel_sample()
        os.makedirs(os.path.join(OUT, "evidence"), exist_ok=True)
        os.makedirs(os.path.join(OUT, "replays"), exist_ok=True)
        lines = []
        # known findings: replayed by the property module -> self.known_hits
        for k in self.known:
            if self.known_hits.get(k["class"], 0) > 0:
                lines.append("KNOWN-FINDING: property=%s class=%s %s (%d cases in this run)" %
                             (self.pid, k["class"], k["text"], self.known_hits[k["class"]]))
            else:
                self.notes.append("known finding class %s not reproduced in this run" % k["class"])
        nviol = 0
        self.violations.sort(key=lambda v: len(json.dumps(v.get("case", ""))))
        weak = [v for v in self.violations if v.get("kind") == "correspondence-only"]
        self.violations = [v for v in self.violations if v.get("kind") != "correspondence-only"]
        for st in sorted({v["stream"] for v in weak}):
            self.broken.append("correspondence:" + st)
        for idx, v in enumerate(self.violations[:5]):
            path = os.path.join(OUT, "replays", "%s-%d.json" % (self.pid, idx))
            v = dict(v, property=self.pid, seed=self.seed, tier=self.tier)
            with open(path, "w") as f:
                json.dump(v, f, indent=1)
            lines.append("VIOLATION property=%s replay=%s" % (self.pid, path))
            nviol += 1
        if not self.violations and self.broken:
            path = os.path.join(OUT, "replays", "%s-unchecked.json" % self.pid)
            with open(path, "w") as f:
                json.dump({"property": self.pid, "seed": self.seed, "tier": self.tier,
                           "no_longer_checks": self.broken, "proof_error": self.proof.get("error", "")[-3000:],
                           "kernel": self.kernel, "disagreeing_cases": weak[:5], "explanation":
                           "a theorem or the correspondence no longer checks and the search found no input on which "
                           "the property itself fails (disagreeing_cases: inputs on which model and implementation "
                           "differ where the property does not fix the answer)"}, f, indent=1)
            lines.append("VIOLATION property=%s replay=%s no-failing-input-found" % (self.pid, path))
            nviol += 1
        wall = time.time() - self.t0
        distinct = len(self.distinct)
        ev = {
            "property_id": self.pid, "tier": self.tier, "seed": self.seed, "level": "proof",
            "coverage": {
                "obligations": max(1, self.proof["obligations"]),
                "discharged": self.proof["discharged"],
                "checker_cmd": "make -C coq (coq_makefile, full .vo) && coqc -Q coq/theories '' coq/theories/%s.v" % self.pid,
                "trusted_base": self.trusted + [
                    "Coq 8.16.1 kernel (coqc; vm_compute used; native_compute not used)",
                    "axioms: " + self.axiom_summary(),
                    "extraction: ExtrOcamlBasic + ExtrOcamlString directives only; OCaml 4.13.1; ocaml/modelrun.ml",
                    "tie: harness/cmd/implrun (Go), driver/*.py (generators, comparison)"],
                "theorems": self.proof["theorems"],
                "print_assumptions": self.proof["assumptions"],
                "coqchk": self.proof.get("coqchk"),
                "evaluations": max(1, self.evaluations),
                "distinct_nontrivial": distinct,
                "rule": self.extra.pop("rule", "cases generated from one seeded PRNG per stream (see streams); a case counts as "
                                       "non-trivial when the implementation's answer is not a plain rejection; distinct by hash of the encoded case"),
                "samples": self.samples or [{"note": "no cases generated"}],
                "streams": self.streams,
                "disagreements": self.disagreements,
                "in_kernel_sample": self.kernel,
                "known_findings_seen": self.known_hits,
                "no_longer_checks": self.broken,
                "notes": self.notes[:40],
            },
            "assumptions": self.assumptions,
            "wall_s": round(wall, 2),
            "violations": nviol,
        }
        ev["coverage"].update(self.extra)
        with open(os.path.join(OUT, "evidence", self.pid + ".json"), "w") as f:
            json.dump(ev, f, indent=1, default=str)
        for l in lines:
            print(l)
        print("%s tier=%s seed=%d: %d cases, %d distinct non-trivial, %d/%d theorems, %d disagreements, kernel %s/%s, %.1fs" %
              (self.pid, self.tier, self.seed, self.evaluations, distinct, self.proof["discharged"],
               self.proof["obligations"], self.disagreements, self.kernel["mismatches"], self.kernel["cases"], wall))
        return 1 if nviol else 0

    def axiom_summary(self):
        ax = [a for f in self.proof["assumptions"] for a in f["axioms"]]
        if ax:
            return "; ".join(ax)
        n = sum(f["closed"] for f in self.proof["assumptions"])
        return "none (%d Print Assumptions: Closed under the global context)" % n


def coq_escape(s):
    return s.replace('"', '""')


def show_case(case):
    op, args = case
    out = []
    for a in args:
        if isinstance(a, bytes):
            try:
                t = a.decode("ascii")
                out.append(t if t.isprintable() and len(t) < 400 else "hex:" + a.hex()[:800])
            except UnicodeDecodeError:
                out.append("hex:" + a.hex()[:800])
        else:
            out.append(str(a))
    return {"op": op, "args": out, "hexargs": [(a if isinstance(a, bytes) else str(a).encode()).hex()[:400000] for a in args]}


def case_from_replay(d):
    return (d["case"]["op"], [bytes.fromhex(h) for h in d["case"]["hexargs"]])
