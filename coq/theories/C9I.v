(* C09 / C10: the generic record theorems instantiated with every supported field kind:
   string, int, uint, bool, delimiter-separated list of strings, and custom types given by their own codec *)
From Coq Require Import List Ascii String Bool Arith NArith ZArith Lia.
Require Import GS V3 V4 L10 L11 C9 C9G.
Import ListNotations.

Section AllKinds.
  (* custom types (version.Version, dependency.Dependency, dependency.Arch, ...) by tag *)
  Variable custom : Type.
  Variable cenc : nat -> custom -> str.
  Variable cdec : nat -> str -> option custom.
  Variable czero : nat -> custom.
  Variable cwf : nat -> custom -> Prop.
  Hypothesis c_roundtrip : forall tag x, cwf tag x -> cenc tag x <> [] -> cdec tag (cenc tag x) = Some x.
  Hypothesis c_empty : forall tag x, cwf tag x -> cenc tag x = [] -> x = czero tag.

  Inductive xkind := XScalar (k : C9.kind) | XList (d : ascii) (strip : ascii -> bool) | XCustom (tag : nat).
  Inductive xvalue := YScalar (v : C9.value) | YList (d : ascii) (strip : ascii -> bool) (es : list str) | YCustom (tag : nat) (x : custom).
  Definition xkind_of (v : xvalue) : xkind :=
    match v with YScalar v => XScalar (C9.kind_of v) | YList d st _ => XList d st | YCustom t _ => XCustom t end.
  Definition xzero (k : xkind) : xvalue :=
    match k with XScalar k => YScalar (C9.zero_of k) | XList d st => YList d st [] | XCustom t => YCustom t (czero t) end.
  Definition xmarshal (v : xvalue) : str :=
    match v with YScalar v => C9.marshal_value v | YList d _ es => marshal_list d es | YCustom t x => cenc t x end.
  Definition xdecode (k : xkind) (t : str) : option xvalue :=
    match k with
    | XScalar k => option_map YScalar (C9.decode_value k t)
    | XList d st => Some (YList d st (decode_list d st t))
    | XCustom tag => option_map (YCustom tag) (cdec tag t)
    end.
  Definition xwf (v : xvalue) : Prop :=
    match v with
    | YScalar _ => True
    | YList d st es => st d = false /\ Forall (elt_ok d st) es /\ Forall (fun e => e <> []) es
    | YCustom t x => cwf t x
    end.

  Lemma join_nil_inv d : forall es, Forall (fun e : str => e <> []) es -> join [d] es = [] -> es = [].
  Proof.
    intros [|e [|e2 r]] F; [reflexivity| |]; inversion F; subst; cbn [join].
    - intros E. congruence.
    - intros E. apply app_eq_nil in E as [E _]. congruence.
  Qed.

  Lemma x_roundtrip v : xwf v -> xmarshal v <> [] -> xdecode (xkind_of v) (xmarshal v) = Some v.
  Proof.
    destruct v as [v|d st es|t x]; cbn [xwf xmarshal xdecode xkind_of].
    - intros _ _. now rewrite C09_value_roundtrip.
    - intros (Hd&He&_) NE. f_equal. f_equal. apply C09_list_roundtrip; [exact Hd| |exact He].
      intros ->. apply NE. reflexivity.
    - intros W NE. now rewrite c_roundtrip.
  Qed.
  Lemma x_empty v : xwf v -> xmarshal v = [] -> v = xzero (xkind_of v).
  Proof.
    destruct v as [v|d st es|t x]; cbn [xwf xmarshal xzero xkind_of].
    - intros _ E. f_equal. now apply C9.empty_marshal.
    - intros (_&_&Hn) E. f_equal. now apply (join_nil_inv d).
    - intros W E. f_equal. now apply c_empty.
  Qed.

  Definition xschema := C9G.schema xkind.
  Definition xtyped := C9G.typed xkind xvalue xkind_of xmarshal xdecode xwf.

  (* C09 / C10 at record level, all kinds *)
  Theorem C09_roundtrip_all (sch : xschema) r : xtyped sch r -> C9G.keys_distinct xkind sch ->
    C9G.decode xkind xvalue xzero xdecode sch
      (C9G.values (C9G.convert xkind xvalue xmarshal sch r {| C9G.order := []; C9G.values := [] |})) = Some r.
  Proof. apply (C9G.C09_roundtrip xkind xvalue xkind_of xzero xmarshal xdecode xwf x_roundtrip x_empty). Qed.
End AllKinds.

(* version.Version is such a custom type (C03) *)
Lemma version_codec_ok v : wf_v v -> to_string v <> [] /\ parse (to_string v) = Some v.
Proof. intros W. split; [apply (to_string_nosp v W)|now apply roundtrip_wf]. Qed.
Print Assumptions C09_roundtrip_all.
