(* control/encode.go convertToParagraph, as the code has it: the embedded paragraph's fields that are not omitted are
   put into a fresh paragraph with Paragraph.Set, and that paragraph is Update()d with the struct's own fields.
   C9.convert states the RESULT (orders filtered and appended, values as one association list); here the result is
   proved equal to the composition of the two paragraph operations of PU.v, so the C09 theorems speak about the code's
   own call structure. *)
From Coq Require Import List Ascii String Bool Arith Lia.
Require Import GS R2 R3 PU C9.
Import ListNotations.

Definition toR (p : C9.para) : R2.para := {| R2.order := C9.order p; R2.values := C9.values p |}.

Definition convert_code (sch : C9.schema) (r : C9.record) (found : C9.para) : R2.para :=
  let om := C9.omitted sch r in
  let base := fold_left (fun acc k => pset acc k (R2.lookup k (C9.values found)))
                        (filter (fun k => negb (C9.mem k om)) (C9.order found)) R2.empty_para in
  let new := C9.own sch r in
  update base {| R2.order := map fst new; R2.values := new |}.

(* ---------- helper facts ---------- *)
Lemma fresh_nodup : forall ks seen, NoDup ks -> fresh seen ks = filter (fun k => negb (existsb (str_eqb k) seen)) ks.
Proof.
  induction ks as [|k r IH]; intros seen ND; [reflexivity|]. inversion ND as [|? ? Hk Hr]; subst. cbn [fresh filter].
  destruct (existsb (str_eqb k) seen) eqn:E; cbn [negb].
  - now apply IH.
  - f_equal. rewrite IH by exact Hr. apply filter_ext_in. intros x Hx. cbn [existsb].
    destruct (str_eqb_spec x k) as [->|]; [contradiction|reflexivity].
Qed.
Lemma filter_true {A} (l : list A) : filter (fun _ => true) l = l.
Proof. induction l as [|a l IH]; cbn; [reflexivity|now rewrite IH]. Qed.

Lemma empty_pinv : pinv R2.empty_para.
Proof. split; [constructor|reflexivity]. Qed.

Lemma c9_lookup_r2 k vs : C9.lookup k vs = if R2.mem k vs then Some (R2.lookup k vs) else None.
Proof.
  induction vs as [|[k' v] r IH]; cbn; [reflexivity|]. destruct (str_eqb k' k); cbn; [reflexivity|exact IH].
Qed.
Lemma c9_lookup_app k a b : C9.lookup k (a ++ b) = match C9.lookup k a with Some v => Some v | None => C9.lookup k b end.
Proof. induction a as [|[k' v] a IH]; cbn; [reflexivity|]. destruct (str_eqb k' k); [reflexivity|exact IH]. Qed.
Lemma c9_lookup_filter (P : str -> bool) k vs : P k = true ->
  C9.lookup k (filter (fun kv => P (fst kv)) vs) = C9.lookup k vs.
Proof.
  intros Pk. induction vs as [|[k' v] r IH]; cbn; [reflexivity|]. destruct (str_eqb_spec k' k) as [->|N].
  - rewrite Pk. cbn. destruct (str_eqb_spec k k); [reflexivity|contradiction].
  - destruct (P k'); cbn; [destruct (str_eqb_spec k' k); [contradiction|exact IH]|exact IH].
Qed.
Lemma r2_mem_existsb k vs : R2.mem k vs = existsb (str_eqb k) (map fst vs).
Proof.
  induction vs as [|[k' v] r IH]; cbn; [reflexivity|]. rewrite IH. f_equal.
  destruct (str_eqb_spec k' k), (str_eqb_spec k k'); congruence.
Qed.
Lemma c9_mem_existsb k l : C9.mem k l = existsb (str_eqb k) l.
Proof. reflexivity. Qed.
Lemma existsb_in k l : existsb (str_eqb k) l = true <-> In k l.
Proof.
  rewrite existsb_exists. split.
  - intros (x & I & E). destruct (str_eqb_spec k x); [now subst|discriminate].
  - intros I. exists k. split; [exact I|]. destruct (str_eqb_spec k k); [reflexivity|contradiction].
Qed.

(* ---------- the result ---------- *)
Section Bridge.
  Variables (sch : C9.schema) (r : C9.record) (found : C9.para).
  Hypothesis Hfound : pinv (toR found).
  Hypothesis Hnew : NoDup (map fst (C9.own sch r)).

  Let ks := filter (fun k => negb (C9.mem k (C9.omitted sch r))) (C9.order found).
  Let base := fold_left (fun acc k => pset acc k (R2.lookup k (C9.values found))) ks R2.empty_para.

  Lemma ks_nodup : NoDup ks.
  Proof. apply NoDup_filter. exact (proj1 Hfound). Qed.
  Lemma base_pinv : pinv base.
  Proof. apply fold_pset_pinv. exact empty_pinv. Qed.
  Lemma base_order : R2.order base = ks.
  Proof.
    unfold base. rewrite fold_pset_order by exact empty_pinv. cbn [R2.order R2.empty_para app].
    rewrite fresh_nodup by exact ks_nodup. cbn [existsb negb]. apply filter_true.
  Qed.

  Theorem convert_code_order : R2.order (convert_code sch r found) = C9.order (C9.convert sch r found).
  Proof.
    unfold convert_code, C9.convert. fold ks. fold base. cbn [C9.order].
    rewrite update_order by exact base_pinv. cbn [R2.order]. rewrite base_order. f_equal.
    rewrite fresh_nodup by exact Hnew. reflexivity.
  Qed.

  Theorem convert_code_value k : In k (C9.order (C9.convert sch r found)) ->
    C9.lookup k (C9.values (C9.convert sch r found)) = Some (R2.lookup k (R2.values (convert_code sch r found))).
  Proof.
    intros Hin. unfold convert_code. fold ks. fold base. rewrite update_lookup. cbn [R2.order R2.values].
    unfold C9.convert at 1. cbn [C9.values]. rewrite c9_lookup_app, c9_lookup_r2, r2_mem_existsb.
    destruct (existsb (str_eqb k) (map fst (C9.own sch r))) eqn:E; [reflexivity|].
    (* k is not one of the struct's own keys: it comes from the kept part of the embedded paragraph *)
    rewrite (c9_lookup_filter (fun k0 => negb (C9.mem k0 (map fst (C9.own sch r)))) k) by (rewrite c9_mem_existsb, E; reflexivity).
    assert (Hks : In k ks).
    { unfold C9.convert in Hin. cbn [C9.order] in Hin. fold ks in Hin. apply in_app_or in Hin as [H|H]; [exact H|].
      apply filter_In in H as [H _]. apply existsb_in in H. congruence. }
    unfold base. rewrite fold_pset_lookup. assert (Ek : existsb (str_eqb k) ks = true) by now apply existsb_in.
    rewrite Ek. rewrite c9_lookup_r2.
    assert (M : R2.mem k (C9.values found) = true).
    { apply R3.mem_in. destruct Hfound as [_ K]. cbn [toR R2.values R2.order] in K. rewrite K.
      unfold ks in Hks. now apply filter_In in Hks as [H _]. }
    now rewrite M.
  Qed.

  (* hence the paragraph that is written (WriteTo walks Order and looks each key up) is the same *)
  Corollary convert_code_written :
    map (fun k => (k, R2.lookup k (R2.values (convert_code sch r found)))) (R2.order (convert_code sch r found)) =
    map (fun k => (k, match C9.lookup k (C9.values (C9.convert sch r found)) with Some v => v | None => [] end))
        (C9.order (C9.convert sch r found)).
  Proof.
    rewrite convert_code_order. apply map_ext_in. intros k Hk. now rewrite convert_code_value.
  Qed.
  Corollary convert_code_pinv : pinv (convert_code sch r found).
  Proof. unfold convert_code. apply update_pinv. exact base_pinv. Qed.
End Bridge.

(* the hypothesis on the struct's own keys follows from distinct field keys *)
Lemma own_keys_nodup : forall sch r, C9.keys_distinct sch -> NoDup (map fst (C9.own sch r)).
Proof.
  unfold C9.keys_distinct. induction sch as [|f sch IH]; intros [|v r] ND; cbn [C9.own map]; try constructor.
  inversion ND as [|? ? Hf Hr]; subst.
  destruct (_ && _); [now apply IH|]. cbn [map fst]. constructor; [|now apply IH].
  intros I. apply Hf. eapply C9.own_keys; eauto.
Qed.

Theorem convert_is_set_then_update sch r found : C9.keys_distinct sch -> pinv (toR found) ->
  R2.order (convert_code sch r found) = C9.order (C9.convert sch r found) /\
  (forall k, In k (C9.order (C9.convert sch r found)) ->
     C9.lookup k (C9.values (C9.convert sch r found)) = Some (R2.lookup k (R2.values (convert_code sch r found)))) /\
  pinv (convert_code sch r found).
Proof.
  intros KD I. pose proof (own_keys_nodup sch r KD) as N. split; [|split].
  - now apply convert_code_order.
  - intros k. now apply convert_code_value.
  - now apply convert_code_pinv.
Qed.
Print Assumptions convert_is_set_then_update.
