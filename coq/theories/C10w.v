(* C10 non-vacuity: concrete fields meeting the hypotheses of the list / lines / accessor theorems, and the decoder
   the tie executes evaluated on whole documents of two regenerated schemas. *)
From Coq Require Import List Ascii String Bool Arith NArith ZArith Lia.
Require Import SchemaDefs Schema_gen.
Require Import GS R2 L10 L12 L13 ACC C9G CX.
Import ListNotations.

(* "Uploaders: A B <a@b>,\n C <c@d> ," - a comma list with blanks and a folded line *)
Definition items1 : list (str * str * str) := [([], s "A B <a@b>", []); ([nl; sp], s "C <c@d>", [sp])].
Example C10w_list_items_ok : strip4 comma = false /\ items1 <> [] /\ Forall (item_ok comma strip4) items1.
Proof.
  split; [reflexivity|]. split; [discriminate|].
  repeat constructor; cbn; try discriminate; try reflexivity.
Qed.
Example C10w_list_decoded : decode_list comma strip4 (render_list comma items1) = [s "A B <a@b>"; s "C <c@d>"].
Proof. vm_compute. reflexivity. Qed.

(* "Files:\n <md5> 3 a.dsc\n <md5> 4 b.tar.gz\n" - newline-delimited lines behind the multiline newline *)
Definition lines1 : list str := [s "d41d 3 a.dsc"; s "e5e5 4 b.tar.gz"].
Example C10w_lines_ok : allP strip4 [nl; sp] /\ allP strip4 [nl] /\ lines1 <> [] /\ Forall (line_ok nl strip4) lines1.
Proof. repeat constructor; cbn; try discriminate; try reflexivity. Qed.
Example C10w_lines_decoded : decode_list nl strip4 ([nl; sp] ++ join [nl] lines1 ++ [nl]) = lines1.
Proof. vm_compute. reflexivity. Qed.

Example C10w_source_package : source_package (s "zlib (1:1.2.8.dfsg-2)") (s "zlib1g") = s "zlib" /\
  source_package [] (s "zlib1g") = s "zlib1g" /\ s "zlib" <> [] /\ free sp (s "zlib").
Proof. repeat split; try discriminate. repeat constructor; discriminate. Qed.
Example C10w_arch_all : has_arch_all [(s "gnu", s "linux", s "amd64"); (all_s, all_s, all_s)] = true.
Proof. reflexivity. Qed.

(* the executed decoder on a whole .dsc and on a .deb control file, through the REGENERATED schemas: the decode
   succeeds (so the premise of C10_decode_pointwise is met) and a required field missing is an error *)
Definition dsc_text : str := s "Format: 3.0 (quilt)" ++ [nl] ++ s "Source: zlib" ++ [nl] ++ s "Binary: zlib1g," ++ [nl] ++ s " zlib1g-dev" ++ [nl] ++
  s "Architecture: any all" ++ [nl] ++ s "Version: 1:1.2.8.dfsg-2" ++ [nl] ++ s "Build-Depends: debhelper (>= 9), gcc-multilib [amd64 i386] <!nocheck>" ++ [nl].
Example C10w_dsc_decodes : exists r, CX.decode_text dsc_schema dsc_text = Some r /\ List.length r = List.length (CX.gschema dsc_schema).
Proof. vm_compute. eexists. split; reflexivity. Qed.
Example C10w_deb_control_required : CX.decode_text deb_control_schema (s "Package: x" ++ [nl] ++ s "Version: 1.0" ++ [nl]) = None /\
  CX.decode_text deb_control_schema (s "Package: x" ++ [nl] ++ s "Version: 1.0" ++ [nl] ++ s "Architecture: amd64" ++ [nl]) <> None.
Proof. vm_compute. split; [reflexivity|discriminate]. Qed.

(* a checksum row meeting C10_checksum_list's hypotheses, and the whole value evaluated through the regenerated schema *)
Require CX3.
Example C10w_rows : Forall CX3.row_ok [(s "d41d8cd9", s "3", s "a.dsc", 3%Z); (s "e5e5e5e5", s "40", s "b.tar.gz", 40%Z)].
Proof. repeat constructor; discriminate. Qed.
