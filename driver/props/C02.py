"""C02 - Compare is a total preorder; sort.Sort(version.Slice) gives a non-decreasing permutation."""
import itertools
import lib
import gen
from props.C01 import rand_version_part, ALPHA, EPOCHS


def pool(chk, n):
    rng = chk.rng
    base = [b"1.0", b"1.00", b"1.0~rc1", b"1.0+b1", b"1", b"01", b"1.", b"1.~", b"1~", b"1~~", b"1a", b"1A", b"1+", b"1-1",
            b"1.0.0", b"1.0.00", b"0", b"00", b"10", b"9", b"2", b"1:0", b"1.0a", b"1.0~", b"1.0~~a", b"1.0+", b"1.0-"]
    out = []
    for u in base:
        out.append((0, u, b""))
    # one upstream part with every kind of revision: equal-looking revisions must be interchangeable
    for r in [b"1", b"+1", b"01", b"1a", b"1+", b"0", b"", b"~", b"+", b"a"]:
        out.append((0, b"1", r))
    # digit runs at and beyond the machine-word boundaries (2^31, 2^32, 2^63, 2^64) and far beyond: the order has no
    # limit on magnitude, so the laws must hold there too (a comparison through a fixed-width integer wraps)
    for u in [b"2147483647", b"2147483648", b"4294967296", b"1000000000000000000", b"9223372036854775807", b"9223372036854775808",
              b"9300000000000000000", b"18446744073709551615", b"18446744073709551616", b"018446744073709551616",
              b"100000000000000000000000000000000000001", b"1.18446744073709551617"]:
        out.append((0, u, b""))
    # epochs are unsigned machine words in the implementation: the whole range, far apart and next to each other at the top
    for e in (2**63 - 1, 2**63, 2**63 + 5, 2**64 - 1, 2**64 - 2, 2**62):
        out.append((e, b"1.0", b"1"))
    out.append((0, b"1", b"18446744073709551616"))
    out.append((0, b"1", b"9223372036854775809"))
    while len(out) < n:
        u = rand_version_part(rng, 12) or b"0"
        if rng.random() < 0.4 and out:
            e, u0, r0 = rng.choice(out)
            u = gen.mutate(rng, u0, ALPHA)
        r = rng.choice([b"", b"", b"0", b"1", b"00", b"~1", b"1a", b"+1", b"1+", b"+", b".1", b"1.", b"01", b"a", b"~", b"+1a", b"1~", b"+01"])
        e = rng.choice([0, 0, 0, 1, 2**31])
        out.append((e, u, r))
    return out[:n]


def run(chk):
    rng = chk.rng
    n = chk.n(92, 180)
    vs = pool(chk, n)
    cases = [("vcmp", [a[0], a[1], a[2], b[0], b[1], b[2]]) for a in vs for b in vs]
    impl, model = chk.run_both(cases)
    chk.compare("pool-pairs", cases, impl, model, nontrivial=lambda c, r: c[1][:3] != c[1][3:], spec=False)   # the laws themselves are evaluated below on the implementation's answers
    # the laws, evaluated on the implementation's own answers over all triples of the pool
    sg = {}
    for (c, r) in zip(cases, impl):
        sg[(tuple(c[1][:3]), tuple(c[1][3:]))] = int(r) if r in ("-1", "0", "1") else None
    def S(a, b):
        return sg[(a, b)]
    tv = [tuple(v) for v in vs]
    laws = {"refl": 0, "antisym": 0, "trans": 0, "congr": 0}
    def bad(law, *xs):
        chk.violate({"kind": "property", "law": law, "versions": [[x[0], x[1].decode("latin1"), x[2].decode("latin1")] for x in xs],
                     "case": lib.show_case(("vcmp", list(xs[0]) + list(xs[1 if len(xs) > 1 else 0]))),
                     "explanation": "version.Compare violates %s on these versions" % law})
    for a in tv:
        laws["refl"] += 1
        if S(a, a) != 0:
            bad("reflexivity", a)
    for a in tv:
        for b in tv:
            laws["antisym"] += 1
            if S(a, b) is None or S(b, a) is None or S(a, b) != -S(b, a):
                bad("antisymmetry", a, b)
    nviol = 0
    for a in tv:
        for b in tv:
            sab = S(a, b)
            if sab is None or sab > 0:
                continue
            for c in tv:
                sbc = S(b, c)
                laws["trans"] += 1
                if sbc is not None and sbc <= 0 and not (S(a, c) is not None and S(a, c) <= 0):
                    if nviol < 5:
                        bad("transitivity", a, b, c)
                    nviol += 1
                if sab == 0:
                    laws["congr"] += 1
                    if S(a, c) != S(b, c) or S(c, a) != S(c, b):
                        if nviol < 5:
                            bad("equal-versions-interchangeable", a, b, c)
                        nviol += 1
    chk.extra["laws_checked_on_impl"] = laws
    # versions that reached the program through UnmarshalText out of ONE reused read buffer (later overwritten) take part in the
    # order exactly like the versions parsed from fresh strings
    texts = [str(e).encode() + b":" + u + (b"-" + r if r else b"") for e, u, r in vs if e < 2**64 and u[:1].isdigit() and b" " not in u + r and len(u) + len(r) < 200]
    bc = [("vcmpbuf", [rng.choice(texts), rng.choice(texts), rng.choice(texts)]) for _ in range(chk.n(1500, 30000))]
    bi = chk.run_impl(bc)
    chk.record("decoded-from-a-reused-buffer", bc, bi, lambda c, r: r.startswith("same"))
    for c, r in zip(bc, bi):
        if not (r.startswith("same") or r == "err"):
            chk.violate({"kind": "property", "case": lib.show_case(c), "impl": r,
                         "explanation": "versions decoded with UnmarshalText out of a reused buffer compare differently from the same versions parsed from strings"})
    # sorting
    k = chk.n(1500, 30000)
    scases = []
    for _ in range(k):
        m = rng.randrange(0, 40)
        items = [rng.choice(vs) for _ in range(m)]
        args = []
        for it in items:
            args += [it[0], it[1], it[2]]
        scases.append(("vsort", args))
    si = chk.run_impl(scases)
    sm = chk.run_model(scases)
    chk.record("sort", scases, si, lambda c, r: len(c[1]) > 3)
    for k2 in range(0, len(scases), max(1, len(scases) // 40)):
        chk.kernel_pool.append((scases[k2], sm[k2]))
    # impl output: permutation of the input and non-decreasing under the model's compare
    def parse_list(r):
        toks = r.split()
        out = []
        i = 0
        while i < len(toks):
            if toks[i] == "(":
                out.append((int(toks[i + 1]), bytes.fromhex(toks[i + 2][1:]), bytes.fromhex(toks[i + 3][1:])))
                i += 5
            else:
                i += 1
        return out
    chk2 = []
    for c, r, m in zip(scases, si, sm):
        try:
            got = parse_list(r)
        except Exception:
            chk.violate({"kind": "property", "case": lib.show_case(c), "impl": r, "explanation": "sort did not return a list"})
            continue
        want_in = [(int(c[1][i]), c[1][i + 1], c[1][i + 2]) for i in range(0, len(c[1]), 3)]
        if sorted(got) != sorted(want_in):
            chk.violate({"kind": "property", "case": lib.show_case(c), "impl": r, "explanation": "sort.Sort output is not a permutation of its input"})
        args = []
        for it in got:
            args += [it[0], it[1], it[2]]
        chk2.append(("vsorted", args))
        if sorted(parse_list(m)) != sorted(want_in):
            chk.broken.append("model sort not a permutation?!")
    ok = chk.run_model(chk2)
    for c, r, orig in zip(chk2, ok, scases):
        if r != "T":
            chk.violate({"kind": "property", "case": lib.show_case(orig), "sorted_by_impl": lib.show_case(c),
                         "explanation": "sort.Sort(version.Slice) output is not non-decreasing under Compare"})
    chk.assumptions += ["no NUL bytes (C02_needs_no_nul)", "sort.Sort itself is the Go standard library: the theorem proves the contract it needs (strict weak order) and the postcondition for Coq's merge sort over the same order; the tie checks the real sort's output"]


def replay(chk, d):
    c = lib.case_from_replay(d)
    i, m = chk.run_both([c])
    print("impl:", i[0], "model:", m[0])
    return 1 if i[0] != m[0] else 0
