(* C04 non-vacuity for the any-position rejection theorem: "a, b | c (== 2) x" - the refused alternative is the
   second alternative of the second relation; the hypotheses are met and the conclusion agrees with evaluation. *)
From Coq Require Import List Ascii String Bool Arith NArith Lia.
Require Import A1 D3 D4 D5 D6 D14 D9 D10 D12 D13 D15 D16r D17r D18r D19r D20r.
Import ListNotations.

Definition sC : str := map ascii_of_nat [99].          (* "c" *)
Definition lit (x : string) : str := list_ascii_of_string x.

Lemma plain_alt n : n <> [] -> forallb namec n = true -> eqc (peek n) 36 = false -> alt_okR n (result n None []).
Proof.
  intros A B C. pose proof (alt_freeR n None [] A B C I (co_nil _)) as H.
  cbn [qual_text clauses_text map List.concat app] in H. now rewrite app_nil_r in H.
Qed.

Example C04w_bad : bad_alt (lit "c (== 2) x").
Proof.
  change (lit "c (== 2) x") with (lit "c" ++ qual_text None ++ clauses_text [] ++ lit " " ++ ch 40 :: lit "== 2) x").
  apply (bad_unknown_operator (lit "c") None []);
    first [reflexivity | discriminate | exact I | (right; discriminate) | (repeat constructor; fail)].
Qed.

Example C04w_anywhere : parse (lit "a, b | c (== 2) x") = Err.
Proof.
  destruct (C04_reject_anywhere _ C04w_bad) as (_&_&_&H).
  specialize (H [] (lit "a", result (lit "a") None [], [], []) [] (lit " ") (lit "b") (result (lit "b") None []) [] (lit " ") (lit " ")).
  cbn [app lrel2_text tail2_text more2_text map List.concat] in H. apply H; try (repeat constructor; fail).
  - split; [apply plain_alt; [discriminate|reflexivity|reflexivity]|split; constructor].
  - apply plain_alt; [discriminate|reflexivity|reflexivity].
Qed.
Example C04w_evaluates : parse (lit "a, b | c (== 2) x") = Err /\ (exists d, parse (lit "a, b | c (= 2)") = Ok d).
Proof. vm_compute. split; [reflexivity|eexists; reflexivity]. Qed.
