(* deb/ar.go against the io.ReaderAt CONTRACT rather than against bytes.Reader.  The contract leaves one freedom that
   matters here: "If the n = len(p) bytes returned by ReadAt are at the end of the input source, ReadAt may return
   either err == EOF or err == nil."  [eager off n] says which of the two a given call does.  LoadAr / Next are
   written here exactly as the Go code uses (count, err); the theorem is that their result is the one of the buffer
   model AR.ar_next / DEB.ar_open WHATEVER the reader chooses - i.e. every C13 / C15 statement holds for every
   contract-conforming reader (range-request readers, object stores ...), not only for in-memory ones.
   The code before repair ed23e1b (checkAr returned any error of the 8-byte read) is kept as [check_ar_pinned] with
   the witness that it is NOT independent of that choice: the finding the eager-EOF reader mode of the tie reported. *)
From Coq Require Import List Ascii String Bool Arith ZArith Lia.
Require Import GS AR AR2 DEB.
Import ListNotations.

Section ReaderAt.
  Variable eager : nat -> nat -> bool.
  (* ReadAt(p[0:n], off): the bytes, and whether io.EOF is reported with them *)
  Definition read_at (buf : str) (off n : nat) : str * bool :=
    let data := sub buf off n in
    (data, if List.length data <? n then true else if off + n =? List.length buf then eager off n else false).

  (* checkAr after the repair: judged by the byte count *)
  Definition check_ar (buf : str) : bool :=
    let '(hdr, _) := read_at buf 0 8 in (List.length hdr =? 8) && str_eqb hdr magic.
  (* ... and before it: any error is fatal *)
  Definition check_ar_pinned (buf : str) : bool :=
    let '(hdr, eof) := read_at buf 0 8 in negb eof && str_eqb hdr magic.

  (* Ar.Next *)
  Definition ar_next_rd (buf : str) (off : nat) : nres :=
    let '(line, eof) := read_at buf off 60 in
    let count := List.length line in
    if (count =? 0) && eof then NEof
    else if (count =? 1) && str_eqb line [nl] then NEof
    else if negb (count =? 60) then NErr
    else match parse_entry off line with
         | None => NErr
         | Some e =>
             let size := Z.to_nat (e_size e) in
             if (0 <? size) && negb (List.length (fst (read_at buf (off + 60 + size - 1) 1)) =? 1) then NErr
             else NEntry e (off + 60 + size + size mod 2)
         end.

  Lemma sub_length buf off n : List.length (sub buf off n) = Nat.min n (List.length buf - off).
  Proof. unfold sub. now rewrite firstn_length, skipn_length. Qed.

  Theorem ar_next_any_reader buf off : ar_next_rd buf off = ar_next buf off.
  Proof.
    unfold ar_next_rd, ar_next, read_at. cbn [fst]. set (line := sub buf off 60).
    assert (L : List.length line = Nat.min 60 (List.length buf - off)) by apply sub_length.
    destruct (List.length line =? 0) eqn:Z0.
    - apply Nat.eqb_eq in Z0. rewrite Z0. cbn [Nat.ltb Nat.leb andb]. reflexivity.
    - cbn [andb]. destruct ((List.length line =? 1) && str_eqb line [nl]); [reflexivity|].
      destruct (List.length line =? 60); [|reflexivity]. cbn [negb].
      destruct (parse_entry off line) as [e|]; [|reflexivity].
      set (size := Z.to_nat (e_size e)). rewrite sub_length.
      destruct (0 <? size) eqn:P; [|reflexivity]. cbn [andb]. apply Nat.ltb_lt in P.
      destruct (off + 60 + size - 1 <? List.length buf) eqn:Q.
      + apply Nat.ltb_lt in Q. replace (Nat.min 1 (List.length buf - (off + 60 + size - 1))) with 1 by lia. reflexivity.
      + apply Nat.ltb_ge in Q. replace (Nat.min 1 (List.length buf - (off + 60 + size - 1))) with 0 by lia. reflexivity.
  Qed.

  Fixpoint iterate_rd (fuel : nat) (buf : str) (off : nat) : option (list entry * bool) :=
    match fuel with
    | O => None
    | S f => match ar_next_rd buf off with
             | NEof => Some ([], true)
             | NErr => Some ([], false)
             | NEntry e off' => option_map (fun r => (e :: fst r, snd r)) (iterate_rd f buf off')
             end
    end.
  Lemma iterate_any_reader : forall fuel buf off, iterate_rd fuel buf off = iterate fuel buf off.
  Proof.
    induction fuel as [|f IH]; intros buf off; [reflexivity|]. cbn [iterate_rd iterate]. rewrite ar_next_any_reader.
    destruct (ar_next buf off); try reflexivity. now rewrite IH.
  Qed.

  Definition ar_open_rd (buf : str) : option (list entry * bool) :=
    if check_ar buf then iterate_rd (S (List.length buf)) buf 8 else None.

  Lemma check_ar_is_prefix buf : check_ar buf = has_prefix magic buf.
  Proof.
    unfold check_ar, read_at, has_prefix, sub. cbn [skipn]. change (List.length magic) with 8.
    destruct (str_eqb_spec (firstn 8 buf) magic) as [E|N]; [|apply andb_false_r].
    rewrite E. reflexivity.
  Qed.

  (* LoadAr and the whole iteration: the same members, bytes and end for every contract-conforming reader *)
  Theorem ar_open_any_reader buf : ar_open_rd buf = ar_open buf.
  Proof. unfold ar_open_rd, ar_open. rewrite check_ar_is_prefix. destruct (has_prefix magic buf); [apply iterate_any_reader|reflexivity]. Qed.
End ReaderAt.

(* the code before the repair depended on the reader's choice: the archive without members opens through a reader that
   reports nil with the last bytes and not through one that reports io.EOF with them *)
Theorem check_ar_pinned_refuted :
  check_ar_pinned (fun _ _ => false) magic = true /\ check_ar_pinned (fun _ _ => true) magic = false /\
  check_ar (fun _ _ => true) magic = true /\ ar_open_rd (fun _ _ => true) magic = Some ([], true).
Proof. vm_compute. repeat split. Qed.
Print Assumptions ar_open_any_reader.
