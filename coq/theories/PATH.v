(* Go's lexical path functions as the library uses them: path.Clean (deb.Load looks for the tar entry whose cleaned name
   is "control"), path.Join (AbsFiles), filepath.Base / filepath.Dir (Copy / Move / Remove, AbsFiles, GetDSC,
   ByHashPath), filepath.Ext (the compression of a .deb member).  On the platforms the library runs on, path/filepath
   is the slash-separated algorithm of package path.  These were ORACLES of the C10 / C14 / C20 models; here they are
   Gallina functions, run against the Go functions by the tie, with the facts the models relied on proved. *)
From Coq Require Import List Ascii String Bool Arith Lia.
Require Import GS.
Import ListNotations.

Definition slash : ascii := "/"%char.
Definition dot : ascii := "."%char.
Definition dotdot : str := [dot; dot].

(* ---------- Clean ---------- *)
(* the components between slashes, processed left to right on a stack (kept reversed): "" and "." vanish, ".." pops a
   real component; where there is none it vanishes in a rooted path and is kept in a relative one *)
Fixpoint walk (rooted : bool) (stack : list str) (cs : list str) : list str :=
  match cs with
  | [] => stack
  | c :: r =>
      if str_eqb c [] || str_eqb c [dot] then walk rooted stack r
      else if str_eqb c dotdot then
        match stack with
        | top :: st' => if str_eqb top dotdot then walk rooted (c :: stack) r else walk rooted st' r
        | [] => if rooted then walk rooted [] r else walk rooted [c] r
        end
      else walk rooted (c :: stack) r
  end.
Definition is_rooted (p : str) : bool := match p with c :: _ => ceq c slash | [] => false end.
Definition clean (p : str) : str :=
  match p with
  | [] => [dot]
  | _ => let out := rev (walk (is_rooted p) [] (split slash p)) in
         if is_rooted p then slash :: join [slash] out
         else match out with [] => [dot] | _ => join [slash] out end
  end.

(* ---------- Join (two elements), Base, Dir, Ext ---------- *)
Definition join2 (a b : str) : str :=
  match a, b with
  | [], [] => []
  | [], _ => clean b
  | _, _ => clean (a ++ slash :: b)
  end.
Fixpoint strip_trailing_slashes_rev (r : str) : str := match r with c :: t => if ceq c slash then strip_trailing_slashes_rev t else r | [] => [] end.
Fixpoint take_until_slash (r : str) : str := match r with c :: t => if ceq c slash then [] else c :: take_until_slash t | [] => [] end.
Definition base (p : str) : str :=
  match p with
  | [] => [dot]
  | _ => let r := strip_trailing_slashes_rev (rev p) in
         match rev (take_until_slash r) with [] => [slash] | b => b end
  end.
(* everything up to and including the last slash *)
Fixpoint drop_until_slash (r : str) : str := match r with c :: t => if ceq c slash then r else drop_until_slash t | [] => [] end.
Definition dir (p : str) : str := clean (rev (drop_until_slash (rev p))).
(* the suffix of the last element that starts at its last dot *)
Fixpoint ext_rev (r acc : str) : str :=
  match r with
  | [] => []
  | c :: t => if ceq c slash then [] else if ceq c dot then dot :: acc else ext_rev t (c :: acc)
  end.
Definition ext (p : str) : str := ext_rev (rev p) [].

(* ---------- facts ---------- *)
(* a plain component: what checkListedFilename accepts *)
Definition plain (n : str) : bool :=
  negb (str_eqb n []) && negb (str_eqb n [dot]) && negb (str_eqb n dotdot) && negb (existsb (fun c => ceq c slash) n).
(* a clean absolute directory: "/" followed by plain components joined by "/" (what filepath.Dir of an absolute,
   cleaned file name is) *)
Definition clean_abs (d : str) (cs : list str) : Prop := forallb plain cs = true /\ d = slash :: join [slash] cs.

Lemma plain_free n : plain n = true -> free slash n.
Proof.
  unfold plain. intros H. repeat (apply andb_true_iff in H as [H ?]). apply negb_true_iff in H0.
  apply Forall_forall. intros c I E. subst c.
  assert (existsb (fun c => ceq c slash) n = true) by (apply existsb_exists; exists slash; split; [exact I|]; destruct (ceq_spec slash slash); congruence).
  congruence.
Qed.
Lemma plain_kinds n : plain n = true -> str_eqb n [] || str_eqb n [dot] = false /\ str_eqb n dotdot = false.
Proof.
  unfold plain. intros H. repeat (apply andb_true_iff in H as [H ?]).
  apply negb_true_iff in H, H1, H2. rewrite H, H2, H1. split; reflexivity.
Qed.

(* walking over plain components pushes them all *)
Lemma walk_plain rooted : forall cs stack, forallb plain cs = true -> walk rooted stack cs = rev cs ++ stack.
Proof.
  induction cs as [|c r IH]; intros stack H; [reflexivity|]. cbn [forallb] in H. apply andb_true_iff in H as [Hc Hr].
  cbn [walk]. destruct (plain_kinds c Hc) as [K1 K2]. rewrite K1, K2. rewrite IH by exact Hr. cbn [rev]. now rewrite <- app_assoc.
Qed.

Lemma walk_skip_empty rooted stack cs : walk rooted stack ([] :: cs) = walk rooted stack cs.
Proof. reflexivity. Qed.

Lemma split_rooted_join cs : cs <> [] -> forallb plain cs = true -> split slash (slash :: join [slash] cs) = [] :: cs.
Proof.
  intros NE H. change (slash :: join [slash] cs) with ([] ++ slash :: join [slash] cs).
  rewrite split_cons by constructor. f_equal. apply split_join; [exact NE|].
  apply Forall_forall. intros c I. apply plain_free. rewrite forallb_forall in H. now apply H.
Qed.

(* Clean leaves a clean absolute path alone *)
Theorem clean_clean_abs d cs : clean_abs d cs -> clean d = d.
Proof.
  intros [H ->]. unfold clean. cbn [is_rooted]. destruct (ceq_spec slash slash); [|congruence].
  destruct cs as [|c0 cr].
  - vm_compute. reflexivity.
  - rewrite split_rooted_join by (try discriminate; exact H). rewrite walk_skip_empty.
    rewrite walk_plain by exact H. rewrite app_nil_r, rev_involutive. reflexivity.
Qed.

Lemma join_snoc (cs : list str) n : cs <> [] -> join [slash] (cs ++ [n]) = join [slash] cs ++ slash :: n.
Proof.
  induction cs as [|c r IH]; intros NE; [congruence|]. destruct r as [|c2 r2].
  - reflexivity.
  - cbn [app join]. cbn [app join] in IH. rewrite IH by discriminate. now rewrite <- !app_assoc.
Qed.

(* the fact the upload model relied on: for a plain name, Join(dir, name) is the entry `name` of `dir`, its Base is
   the name and its Dir is the directory *)
Theorem join_plain d cs n : clean_abs d cs -> plain n = true ->
  join2 d n = (match cs with [] => slash :: n | _ => d ++ slash :: n end) /\ clean_abs (join2 d n) (cs ++ [n]).
Proof.
  intros [H ->] Hn. unfold join2. 
  assert (P : forallb plain (cs ++ [n]) = true) by (rewrite forallb_app, H; cbn; now rewrite Hn).
  assert (E : clean ((slash :: join [slash] cs) ++ slash :: n) = slash :: join [slash] (cs ++ [n])).
  { unfold clean. cbn [app is_rooted]. destruct (ceq_spec slash slash); [|congruence].
    destruct cs as [|c0 cr].
    - cbn [join app]. change (slash :: slash :: n) with ([] ++ slash :: ([] ++ slash :: n)).
      rewrite split_cons by constructor. rewrite split_cons by constructor. rewrite split_one by now apply plain_free.
      cbn [walk]. replace (str_eqb [] [] || str_eqb [] [dot]) with true by reflexivity.
      destruct (plain_kinds n Hn) as [K1 K2]. rewrite K1, K2. reflexivity.
    - rewrite <- join_snoc by discriminate. 
      rewrite split_rooted_join; [|destruct cr; discriminate|exact P].
      rewrite walk_skip_empty.
      rewrite walk_plain by exact P. rewrite app_nil_r, rev_involutive. reflexivity. }
  cbn [app]. split.
  - change (clean (slash :: join [slash] cs ++ slash :: n)) with (clean ((slash :: join [slash] cs) ++ slash :: n)). rewrite E.
    destruct cs as [|c0 cr]; [reflexivity|]. rewrite join_snoc by discriminate. reflexivity.
  - split; [exact P|]. change (clean (slash :: join [slash] cs ++ slash :: n)) with (clean ((slash :: join [slash] cs) ++ slash :: n)). exact E.
Qed.

Lemma strip_plain_rev n : plain n = true -> strip_trailing_slashes_rev (rev n) = rev n.
Proof.
  intros H. pose proof (plain_free n H) as F. destruct (rev n) as [|c t] eqn:E; [reflexivity|]. cbn.
  destruct (ceq_spec c slash) as [->|]; [|reflexivity]. exfalso.
  assert (I : In slash n) by (apply in_rev; rewrite E; now left). unfold free in F. rewrite Forall_forall in F. exact (F slash I eq_refl).
Qed.
Lemma take_until_free r rest : free slash r -> take_until_slash (r ++ slash :: rest) = r.
Proof.
  induction r as [|c t IH]; intros F; cbn; [destruct (ceq_spec slash slash); [reflexivity|congruence]|].
  inversion F; subst. destruct (ceq_spec c slash); [contradiction|]. f_equal. now apply IH.
Qed.
Lemma free_rev d x : free d x -> free d (rev x).
Proof. unfold free. rewrite !Forall_forall. intros H c I. apply H. now apply in_rev. Qed.

Theorem base_of_entry pre n : plain n = true -> base (pre ++ slash :: n) = n.
Proof.
  intros H. unfold base. destruct (pre ++ slash :: n) eqn:E; [destruct pre; discriminate|]. rewrite <- E.
  rewrite rev_app_distr. cbn [rev]. rewrite <- app_assoc. cbn [app].
  assert (NE : rev n <> []) by (intros Z; apply (f_equal (@rev ascii)) in Z; rewrite rev_involutive in Z; subst n; discriminate).
  destruct (rev n) as [|c t] eqn:R; [congruence|]. cbn [app strip_trailing_slashes_rev].
  pose proof (free_rev slash n (plain_free n H)) as F. rewrite R in F. inversion F; subst.
  destruct (ceq_spec c slash); [contradiction|].
  change (c :: t ++ slash :: rev pre) with ((c :: t) ++ slash :: rev pre). rewrite take_until_free by (constructor; assumption).
  rewrite <- R, rev_involutive. destruct n; [discriminate|reflexivity].
Qed.

Lemma drop_until_free r rest : free slash r -> drop_until_slash (r ++ slash :: rest) = slash :: rest.
Proof.
  induction r as [|c t IH]; intros F; cbn; [destruct (ceq_spec slash slash); [reflexivity|congruence]|].
  inversion F; subst. destruct (ceq_spec c slash); [contradiction|]. now apply IH.
Qed.
Theorem dir_of_entry d cs n : clean_abs d cs -> cs <> [] -> plain n = true -> dir (d ++ slash :: n) = d.
Proof.
  intros C NE H. unfold dir. rewrite rev_app_distr. cbn [rev]. rewrite <- app_assoc. cbn [app].
  rewrite drop_until_free by (apply free_rev; now apply plain_free).
  cbn [rev]. rewrite rev_involutive.
  (* Clean (d ++ "/") = d *)
  destruct C as [P ->]. unfold clean. cbn [app is_rooted]. destruct (ceq_spec slash slash); [|congruence].
  destruct cs as [|c0 cr]; [congruence|].
  assert (S : split slash (slash :: join [slash] (c0 :: cr) ++ [slash]) = [] :: (c0 :: cr) ++ [[]]).
  { change (slash :: join [slash] (c0 :: cr) ++ [slash]) with ([] ++ slash :: (join [slash] (c0 :: cr) ++ [slash])).
    rewrite split_cons by constructor. f_equal.
    replace (join [slash] (c0 :: cr) ++ [slash]) with (join [slash] ((c0 :: cr) ++ [[]])) by (rewrite join_snoc by discriminate; reflexivity).
    apply split_join; [destruct cr; discriminate|]. apply Forall_app. split; [|repeat constructor].
    apply Forall_forall. intros c I. apply plain_free. rewrite forallb_forall in P. now apply P. }
  rewrite S. rewrite walk_skip_empty.
  assert (W : forall stack, walk true stack ((c0 :: cr) ++ [[]]) = rev (c0 :: cr) ++ stack).
  { generalize (c0 :: cr) P. induction l as [|c r IH]; intros Pl stack; [reflexivity|].
    cbn [forallb] in Pl. apply andb_true_iff in Pl as [Hc Hr]. cbn [app walk].
    destruct (plain_kinds c Hc) as [K1 K2]. rewrite K1, K2. rewrite IH by exact Hr. cbn [rev]. now rewrite <- app_assoc. }
  rewrite W, app_nil_r, rev_involutive. reflexivity.
Qed.

(* what deb.Load relies on: the names a control tarball uses for its control file clean to "control" *)
Theorem clean_dot_slash n : plain n = true -> clean (dot :: slash :: n) = n /\ clean n = n /\ clean (n ++ [slash]) = n.
Proof.
  intros H. pose proof (plain_free n H) as F. destruct (plain_kinds n H) as [K1 K2].
  assert (R : is_rooted n = false).
  { destruct n as [|c t]; [reflexivity|]. cbn. inversion F; subst. destruct (ceq_spec c slash); [contradiction|reflexivity]. }
  assert (NE : n <> []) by (intros ->; discriminate).
  repeat split.
  - unfold clean. cbn [is_rooted]. replace (ceq dot slash) with false by reflexivity.
    change (dot :: slash :: n) with ([dot] ++ slash :: n). rewrite split_cons by (repeat constructor; discriminate).
    rewrite split_one by exact F. cbn [walk]. replace (str_eqb [dot] [] || str_eqb [dot] [dot]) with true by reflexivity.
    rewrite K1, K2. cbn. destruct n; [congruence|reflexivity].
  - unfold clean. destruct n as [|c t] eqn:En; [congruence|]. rewrite <- En in *. rewrite R. rewrite split_one by exact F.
    cbn [walk]. rewrite K1, K2. cbn. rewrite En. reflexivity.
  - unfold clean. destruct (n ++ [slash]) as [|c t] eqn:En; [destruct n; discriminate|]. rewrite <- En.
    assert (R2 : is_rooted (n ++ [slash]) = false) by (destruct n; [congruence|exact R]). rewrite R2.
    replace (n ++ [slash]) with (n ++ slash :: []) by reflexivity. rewrite split_cons by exact F.
    cbn [split split_on walk rev]. rewrite K1, K2. cbn [walk]. replace (str_eqb [] [] || str_eqb [] [dot]) with true by reflexivity.
    cbn. destruct n; [congruence|reflexivity].
Qed.

Example path_examples :
  clean (s "a/b/../c/./d//") = s "a/c/d" /\ clean (s "/../a") = s "/a" /\ clean (s "../../a/..") = s "../.." /\ clean [] = s "." /\
  clean (s "./control") = s "control" /\ clean (s ".//./control/") = s "control" /\ clean (s "x/../control") = s "control" /\
  join2 (s "/srv/incoming") (s "../outside/canary") = s "/srv/outside/canary" /\ join2 (s "/a") (s "/etc/passwd") = s "/a/etc/passwd" /\
  base (s "/a/b/") = s "b" /\ base (s "///") = s "/" /\ base [] = s "." /\ dir (s "/a/b/c.dsc") = s "/a/b" /\ dir (s "c.dsc") = s "." /\
  ext (s "data.tar.gz") = s ".gz" /\ ext (s "control.tar") = s ".tar" /\ ext (s "debian-binary") = [] /\ ext (s "a.b/c") = [] /\ ext (s "x.") = s ".".
Proof. vm_compute. repeat split. Qed.
Print Assumptions join_plain.
Print Assumptions dir_of_entry.

(* ---------- ArEntry.IsTarfile (deb/tarfile.go): ".tar" or ".tar.<something>" by filepath.Ext ---------- *)
Definition is_tarfile (name : str) : bool :=
  let e := ext name in
  str_eqb e (s ".tar") || str_eqb (ext (trim_suffix e name)) (s ".tar").

Lemma ext_rev_acc : forall r acc, free slash r -> free dot r -> forall rest, ext_rev (r ++ dot :: rest) acc = dot :: rev r ++ acc.
Proof.
  induction r as [|c t IH]; intros acc Fs Fd rest; cbn [app ext_rev].
  - replace (ceq dot slash) with false by reflexivity. destruct (ceq_spec dot dot); [reflexivity|congruence].
  - inversion Fs; subst. inversion Fd; subst. destruct (ceq_spec c slash); [contradiction|]. destruct (ceq_spec c dot); [contradiction|].
    rewrite IH by assumption. cbn [rev]. now rewrite <- app_assoc.
Qed.
(* the extension of  stem.e  is  .e  when e has no dot and no slash *)
Theorem ext_app stem e : free slash e -> free dot e -> ext (stem ++ dot :: e) = dot :: e.
Proof.
  intros Fs Fd. unfold ext. rewrite rev_app_distr. cbn [rev]. rewrite <- app_assoc. cbn [app].
  rewrite ext_rev_acc by (apply free_rev; assumption). now rewrite rev_involutive, app_nil_r.
Qed.
Lemma firstn_len_app {A} (l1 l2 : list A) : firstn (List.length l1) (l1 ++ l2) = l1.
Proof. induction l1 as [|a l IH]; cbn; [reflexivity|now rewrite IH]. Qed.
Lemma trim_suffix_app stem e : trim_suffix e (stem ++ e) = stem.
Proof.
  unfold trim_suffix, has_suffix, has_prefix. rewrite rev_app_distr, firstn_len_app.
  destruct (str_eqb_spec (rev e) (rev e)); [|congruence].
  rewrite app_length, Nat.add_sub. apply firstn_len_app.
Qed.
Theorem is_tarfile_plain_tar stem : is_tarfile (stem ++ s ".tar") = true.
Proof.
  unfold is_tarfile. change (s ".tar") with (dot :: s "tar"). rewrite ext_app by (repeat constructor; discriminate). 
  destruct (str_eqb_spec (dot :: s "tar") (dot :: s "tar")); [reflexivity|congruence].
Qed.
Theorem is_tarfile_compressed stem e : free slash e -> free dot e -> is_tarfile (stem ++ s ".tar" ++ dot :: e) = true.
Proof.
  intros Fs Fd. unfold is_tarfile. rewrite app_assoc. rewrite ext_app by assumption. rewrite trim_suffix_app.
  change (s ".tar") with (dot :: s "tar"). rewrite ext_app by (repeat constructor; discriminate).
  destruct (str_eqb_spec (dot :: s "tar") (dot :: s "tar")); [apply orb_true_r|congruence].
Qed.
Example is_tarfile_examples :
  map is_tarfile [s "control.tar"; s "control.tar.gz"; s "data.tar.zst"; s "data.tar.lzma"; s "x.tar.bz2"; s "debian-binary"; s "control.txt"; s "data.tar.gz.bak";
                  s "control."; s "tar"; s ".tar"; s "a.tar/b"; s "_gpgorigin"]
  = [true; true; true; true; true; false; false; false; false; false; true; false; false].
Proof. vm_compute. reflexivity. Qed.
