"""C10 - typed Debian documents decode to exactly the fields written in them."""
import posixpath
import lib
import gen
import depgen
import debgen
from props.C03 import rand_triple, renderings
from props.C06 import name_to_triple
from props.C09 import split_record, hx, show_list

# (debian field, syntax, go field): mirrors the tables of coq/theories/SchemaDefs.v
TABLES = {
    "dsc": [("Format", "scalar", "Format"), ("Source", "scalar", "Source"), ("Binary", "comma", "Binaries"),
            ("Architecture", "archs", "Architectures"), ("Version", "version", "Version"), ("Maintainer", "scalar", "Maintainer"),
            ("Uploaders", "comma", "Uploaders"), ("Homepage", "scalar", "Homepage"), ("Standards-Version", "scalar", "StandardsVersion"),
            ("Build-Depends", "dep", "BuildDepends"), ("Build-Depends-Arch", "dep", "BuildDependsArch"),
            ("Build-Depends-Indep", "dep", "BuildDependsIndep"), ("Checksums-Sha1", "hash:sha1", "ChecksumsSha1"),
            ("Checksums-Sha256", "hash:sha256", "ChecksumsSha256"), ("Files", "hash:md5", "Files")],
    "changes": [("Format", "scalar", "Format"), ("Source", "scalar", "Source"), ("Binary", "space", "Binaries"),
                ("Architecture", "archs", "Architectures"), ("Version", "version", "Version"), ("Distribution", "scalar", "Distribution"),
                ("Urgency", "scalar", "Urgency"), ("Maintainer", "scalar", "Maintainer"), ("Changed-By", "scalar", "ChangedBy"),
                ("Closes", "space", "Closes"), ("Changes", "text", "Changes"), ("Checksums-Sha1", "hash:sha1", "ChecksumsSha1"),
                ("Checksums-Sha256", "hash:sha256", "ChecksumsSha256"), ("Files", "chgfiles", "Files")],
    "source_par": [("Source", "scalar", "Source"), ("Maintainer", "scalar", "Maintainer"), ("Uploaders", "comma", "Uploaders"),
                   ("Section", "scalar", "Section"), ("Priority", "scalar", "Priority"), ("Build-Depends", "dep", "BuildDepends"),
                   ("Build-Depends-Indep", "dep", "BuildDependsIndep"), ("Build-Conflicts", "dep", "BuildConflicts"),
                   ("Build-Conflicts-Indep", "dep", "BuildConflictsIndep")],
    "binary_par": [("Package", "scalar", "Package"), ("Architecture", "archs", "Architectures"), ("Section", "scalar", "Section"),
                   ("Priority", "scalar", "Priority"), ("Essential", "bool", "Essential"), ("Description", "text", "Description"),
                   ("Depends", "dep", "Depends"), ("Recommends", "dep", "Recommends"), ("Suggests", "dep", "Suggests"),
                   ("Enhances", "dep", "Enhances"), ("Pre-Depends", "dep", "PreDepends"), ("Breaks", "dep", "Breaks"),
                   ("Conflicts", "dep", "Conflicts"), ("Replaces", "dep", "Replaces"), ("Built-Using", "dep", "BuiltUsing")],
    "binary_index": [("Package", "scalar", "Package"), ("Source", "scalar", "Source"), ("Version", "version", "Version"),
                     ("Installed-Size", "int", "InstalledSize"), ("Maintainer", "scalar", "Maintainer"), ("Architecture", "arch", "Architecture"),
                     ("Multi-Arch", "scalar", "MultiArch"), ("Description", "scalar", "Description"), ("Tag", "comma", "Tags"),
                     ("Section", "scalar", "Section"), ("Priority", "scalar", "Priority"), ("Filename", "scalar", "Filename"),
                     ("Size", "int", "Size"), ("MD5sum", "scalar", "MD5sum"), ("SHA256", "scalar", "SHA256"), ("Description-md5", "scalar", "DescriptionMD5")],
    "source_index": [("Package", "scalar", "Package"), ("Binary", "comma", "Binaries"), ("Version", "version", "Version"),
                     ("Maintainer", "scalar", "Maintainer"), ("Architecture", "archs", "Architecture"),
                     ("Standards-Version", "scalar", "StandardsVersion"), ("Format", "scalar", "Format"), ("Files", "hash:md5", "Files"),
                     ("Checksums-Sha1", "hash:sha1", "ChecksumsSha1"), ("Checksums-Sha256", "hash:sha256", "ChecksumsSha256"),
                     ("Directory", "scalar", "Directory"), ("Vcs-Git", "scalar", "VcsGit"), ("Homepage", "scalar", "Homepage")],
    "deb_control": [("Package", "scalar", "Package"), ("Source", "scalar", "Source"), ("Version", "version", "Version"),
                    ("Architecture", "arch", "Architecture"), ("Maintainer", "scalar", "Maintainer"), ("Installed-Size", "int", "InstalledSize"),
                    ("Multi-Arch", "scalar", "MultiArch"), ("Depends", "dep", "Depends"), ("Recommends", "dep", "Recommends"),
                    ("Suggests", "dep", "Suggests"), ("Breaks", "dep", "Breaks"), ("Replaces", "dep", "Replaces"),
                    ("Built-Using", "dep", "BuiltUsing"), ("Section", "scalar", "Section"), ("Priority", "scalar", "Priority"),
                    ("Homepage", "scalar", "Homepage"), ("Description", "text", "Description")],
}
# dependency fields of the indexes that are not struct fields: parsed on demand from the embedded paragraph (Get* accessors)
ONDEMAND = {"binary_index": ["Depends", "Pre-Depends", "Suggests", "Breaks", "Replaces", "Conflicts", "Built-Using"],
            "source_index": ["Build-Depends", "Build-Depends-Arch", "Build-Depends-Indep"]}
GETTER = {"Depends": "GetDepends", "Pre-Depends": "GetPreDepends", "Suggests": "GetSuggests", "Breaks": "GetBreaks", "Replaces": "GetReplaces",
          "Conflicts": "GetConflicts", "Built-Using": "GetBuiltUsing", "Build-Depends": "GetBuildDepends",
          "Build-Depends-Arch": "GetBuildDependsArch", "Build-Depends-Indep": "GetBuildDependsIndep"}
REQUIRED = {"deb_control": ["Package", "Version", "Architecture"]}
BYHASH = {"md5": b"", "sha1": b"", "sha256": b"SHA256", "sha512": b"SHA512"}
HEXLEN = {"md5": 32, "sha1": 40, "sha256": 64, "sha512": 128}
ARCHN = [b"amd64", b"i386", b"any", b"all", b"linux-any", b"kfreebsd-amd64", b"any-arm64"]


def gen_field(rng, syntax, files):
    """-> (rendered value text after 'Key:', canonical expected)"""
    fold = rng.random() < 0.5
    if syntax == "scalar":
        v = rng.choice([b"3.0 (quilt)", b"foo", b"A B <a@b.c>", b"https://example.org/x?y=1", b"optional", b"1.0", b"misc", b"hello-src (1.0-1)", b"libfoo (2:1.0~rc1-3+b1)"])
        return b" " + v, hx(v)
    if syntax == "text":
        lines = [rng.choice([b"short summary", b" * item one", b" .", b"  deeper", b"word"]) for _ in range(rng.randrange(1, 5))]
        first = rng.choice([b"summary line", b""])
        val = debgen.value_of(first, [b"" if l == b" ." else l[1:] if l.startswith(b" ") else l for l in lines])
        text = b" " + first + b"".join(b"\n " + (l[1:] if l.startswith(b" ") and l != b" ." else (b"." if l == b" ." else l)) for l in lines)
        # simpler and exact: rebuild from (first, conts)
        conts = [rng.choice([b"line", b" indented", b"", b"x: y"]) for _ in range(rng.randrange(0, 4))]
        text = (b" " + first if first else b"") + b"".join(b"\n " + (c if c != b"" else b".") for c in conts)
        return text, hx(debgen.value_of(first, conts))
    if syntax == "int":
        v = rng.choice([0, 1, 42, 1234567, 2**40])
        return b" " + str(v).encode(), str(v)
    if syntax == "bool":
        v = rng.choice([b"yes", b"no"])
        return b" " + v, "T" if v == b"yes" else "F"
    if syntax == "version":
        e, up, rv = rand_triple(rng)
        return b" " + rng.choice(renderings(rng, e, up, rv)), "( %d %s %s )" % (e, hx(up), hx(rv))
    if syntax == "arch":
        n = rng.choice(ARCHN)
        return b" " + n, "( " + " ".join(hx(c) for c in name_to_triple(n)) + " )"
    if syntax == "archs":
        ns = [rng.choice(ARCHN) for _ in range(rng.randrange(1, 4))]
        sep = b"\n " if fold and rng.random() < 0.3 else b" "
        return b" " + sep.join(ns), show_list(["( " + " ".join(hx(c) for c in name_to_triple(n)) + " )" for n in ns])
    if syntax == "dep":
        d = depgen.rand_dep(rng, 4, 2, 0.5)
        rels = [depgen.render([r], depgen.Layout(rng, "canon")) for r in d]
        text = (b",\n " if fold else b", ").join(rels)
        return b" " + text, depgen.denote(d)[3:]
    if syntax == "comma":
        items = [rng.choice([b"foo", b"libfoo-dev", b"A B <a@b.c>", b"role::program", b"x"]) for _ in range(rng.randrange(1, 5))]
        sep = b",\n " if fold else rng.choice([b", ", b",", b" , "])
        return b" " + sep.join(items), show_list([hx(i) for i in items])
    if syntax == "space":
        items = [rng.choice([b"foo", b"libfoo-dev", b"123456", b"x"]) for _ in range(rng.randrange(1, 5))]
        sep = b"\n " if fold else rng.choice([b" ", b"  "])
        return b" " + sep.join(items), show_list([hx(i) for i in items])
    if syntax.startswith("hash:"):
        alg = syntax[5:]
        rows = []
        for name, size in files:
            h = bytes(rng.choice(b"0123456789abcdef") for _ in range(HEXLEN[alg]))
            rows.append((h, size, name))
        text = b"".join(b"\n " + h + b" " + str(sz).encode() + b" " + n for h, sz, n in rows)
        return text, show_list(["( %s %s %d %s %s )" % (hx(alg.encode()), hx(h), sz, hx(n), hx(BYHASH[alg])) for h, sz, n in rows])
    if syntax == "chgfiles":
        rows = []
        for name, size in files:
            h = bytes(rng.choice(b"0123456789abcdef") for _ in range(32))
            rows.append((h, size, rng.choice([b"devel", b"non-free/libs"]), rng.choice([b"optional", b"extra"]), name))
        text = b"".join(b"\n " + b" ".join([h, str(sz).encode(), sec, pr, n]) for h, sz, sec, pr, n in rows)
        return text, show_list(["( %s %d %s %s %s )" % (hx(h), sz, hx(sec), hx(pr), hx(n)) for h, sz, sec, pr, n in rows])
    raise ValueError(syntax)


ZERO = {"scalar": "x", "text": "x", "int": "0", "bool": "F", "version": "( 0 x x )", "arch": "( x x x )", "archs": "[]", "dep": "[]",
        "comma": "[]", "space": "[]", "chgfiles": "[]"}


def gen_doc(rng, kind):
    """-> (paragraph text, {go field: expected canonical}, model facts for the accessors)"""
    table = TABLES[kind]
    files = [(rng.choice([b"foo_1.0.orig.tar.gz", b"foo_1.0-1.debian.tar.xz", b"foo_1.0-1.dsc", b"bar_2_amd64.deb"]), rng.randrange(0, 10**7))
             for _ in range(rng.randrange(1, 4))]
    text = b""
    exp = {}
    present = {}
    rows = list(table)
    if rng.random() < 0.3:
        rng.shuffle(rows)
    for deb, syn, go in rows:
        need = deb in REQUIRED.get(kind, [])
        if need or rng.random() < 0.75:
            val, canon = gen_field(rng, syn, files)
            text += deb.encode() + b":" + val + b"\n"
            exp[go] = canon
            present[deb] = (val, canon)
        else:
            exp[go] = ZERO.get(syn, "[]")
        if rng.random() < 0.1:
            text += b"X-Extra-%d: anything goes\n" % len(text)
    if rng.random() < 0.15:
        # a field the typed struct does not know, named like a field that lies INSIDE one of its struct-typed fields (asked from
        # the compiled types by reflection - op tfieldnames - exported or not, at any depth)
        k = rng.choice(NESTED.get(kind) or [b"Epoch", b"Revision", b"Native", b"Relations", b"ABI", b"OS", b"CPU"])
        if k not in present and (k + b":") not in text:
            text += k + b": " + rng.choice([b"3", b"x y", b"yes"]) + b"\n"
    if kind in ("dsc", "changes") and rng.random() < 0.15 and b"\nFilename:" not in b"\n" + text:
        # a field called Filename (dpkg-source writes one for an XS-Filename; Marshal of a DSC used to write the local path out
        # as one): it does not replace the path the document was parsed from
        # (judged through the accessors: Filename and AbsFiles of the parsed document are those of the path it was parsed from)
        text += b"Filename: " + rng.choice([b"pool/main/h/hello/hello_2.10-2.dsc", b"/etc/x.changes", b"../elsewhere/y"]) + b"\n"
    ondemand = {}
    for f in ONDEMAND.get(kind, []):
        r = rng.random()
        if r < 0.55:
            val, canon = gen_field(rng, "dep", files)
            text += f.encode() + b":" + val + b"\n"
            ondemand[f] = canon
        elif r < 0.62:
            # malformed text: the accessor has no error result, it answers with the empty dependency
            text += f.encode() + b": " + rng.choice([b"foo (", b"foo [amd64", b"foo (>= 1.0) (<< 2)", b"a b", b"foo (?? 1)"]) + b"\n"
            ondemand[f] = "[]"
        else:
            ondemand[f] = "[]"
    return text, exp, {"files": files, "present": present, "ondemand": ondemand}


def check_fields(chk, case, res, exp, what):
    if not res.startswith("ok"):
        chk.violate({"kind": "property", "case": lib.show_case(case), "impl": res[:800], "explanation": "a well-formed %s document was rejected" % what})
        return
    got = dict(kv.split("=", 1) for kv in split_record(res[3:]))
    for go, canon in exp.items():
        if got.get(go) != canon:
            chk.violate({"kind": "property", "case": lib.show_case(case), "field": go, "impl_value": str(got.get(go))[:600], "expected": canon[:600],
                         "explanation": "the %s parser did not return the field %s as written in the document" % (what, go)})
            return


NESTED = {}


def load_nested(chk):
    kinds = ["dsc", "changes", "source_par", "binary_par", "binary_index", "source_index", "deb_control"]
    for kind, r in zip(kinds, chk.run_impl([("tfieldnames", [k.encode()]) for k in kinds])):
        own = {deb.encode() for deb, _, _ in TABLES[kind]} | {go.encode() for _, _, go in TABLES[kind]}
        NESTED[kind] = [x for x in (bytes.fromhex(h[1:]) for h in r.strip("[] ").split()) if x not in own]
    chk.extra["nested_field_names"] = {k: [x.decode() for x in v] for k, v in NESTED.items()}


def run(chk):
    rng = chk.rng
    n = chk.n(700, 14000)
    load_nested(chk)
    # single-paragraph kinds
    for kind in ("dsc", "changes", "deb_control"):
        docs = [gen_doc(rng, kind) for _ in range(n)]
        icases = [("tdoc", [kind.encode(), t]) for t, _, _ in docs]
        mcases = [("cunmarshal", [kind.encode(), t]) for t, _, _ in docs]
        impl = chk.run_impl(icases); model = chk.run_model(mcases)
        chk.compare(kind, mcases, impl, model)
        for c, i, (t, exp, facts) in zip(icases, impl, docs):
            check_fields(chk, c, i, exp, kind)
        # the same documents in a fresh process that decoded one document of every other kind first: what a typed parser
        # returns does not depend on what the process parsed before
        ac = [("tdocafter", [kind.encode(), t]) for t, _, _ in docs[::4]]
        ai = chk.run_impl(ac)
        chk.record(kind + "-after-other-kinds", ac, ai)
        for c, i, (t, exp, facts) in zip(ac, ai, docs[::4]):
            check_fields(chk, c, i, exp, kind + " (after other document kinds were decoded in the same process)")
        # accessors
        acc = chk.run_impl([("taccess", [kind.encode(), t]) for t, _, _ in docs[::3]])
        for (t, exp, facts), a in zip(docs[::3], acc):
            check_access(chk, kind, t, exp, facts, a)
        # the file-based parsers see what the reader-based ones see
        if kind in ("dsc", "changes"):
            fc = [("tdocfile", [kind.encode(), t]) for t, _, _ in docs[::5]]
            fr = chk.run_impl(fc)
            chk.record(kind + "-file-parsers", fc, fr, lambda c, r: r == "same")
            for c, r in zip(fc, fr):
                if r != "same":
                    chk.violate({"kind": "property", "case": lib.show_case(c), "impl": r[:1500],
                                 "explanation": "the file-based parser does not return what the reader-based parser returns for the same document"})
        # required fields of the .deb control file
        if kind in REQUIRED:
            miss = []
            for t, exp, facts in docs[:200]:
                for r in REQUIRED[kind]:
                    miss.append((b"\n".join(l for l in t.split(b"\n") if not l.startswith(r.encode() + b":")), r))
            mi = chk.run_impl([("tdoc", [kind.encode(), t]) for t, _ in miss])
            for (t, r), i in zip(miss, mi):
                if i != "err":
                    chk.violate({"kind": "property", "case": lib.show_case(("tdoc", [kind.encode(), t])), "impl": i[:600],
                                 "explanation": "a .deb control file without the required field %s was accepted" % r})
    # the *File entry points with RELATIVE names in a process that changes its working directory between two parses (a tool
    # walking over source trees): each parse sees the file of the directory the process is in then
    rc = []
    for kind, gk in (("dsc", "dsc"), ("changes", "changes")):
        for _ in range(chk.n(30, 600)):
            rc.append(("tdocrel", [kind.encode(), gen_doc(rng, gk)[0], gen_doc(rng, gk)[0]]))
    for _ in range(chk.n(30, 600)):
        t1 = gen_doc(rng, "source_par")[0] + b"\n" + gen_doc(rng, "binary_par")[0]
        t2 = gen_doc(rng, "source_par")[0] + b"\n" + gen_doc(rng, "binary_par")[0]
        rc.append(("tdocrel", [b"control", t1, t2]))
    rc = [c for c in rc if b"Filename" not in c[1][1] + c[1][2]]
    ri = chk.run_impl(rc)
    chk.record("relative-names-after-chdir", rc, ri, lambda c, r: r == "same same")
    for c, r in zip(rc, ri):
        if r != "same same":
            chk.violate({"kind": "property", "case": lib.show_case(c), "impl": r[:300],
                         "explanation": "a *File parser called with a relative name after the process changed its working directory did not parse the file of the current directory (or points elsewhere)"})
    # Changes.GetDSC: the first listed *.dsc, parsed from the file beside the .changes
    gc, gw = [], []
    for _ in range(chk.n(60, 1200)):
        dt, dexp, _ = gen_doc(rng, "dsc")
        names = [rng.choice([b"foo_1.0.orig.tar.gz", b"foo_1.0-1_amd64.deb", b"foo_1.0-1.debian.tar.xz", b"foo.dsc.asc", b"dsc"]) for _ in range(rng.randrange(0, 3))]
        dscname = rng.choice([b"foo_1.0-1.dsc", b"bar.dsc", b".dsc"])
        has = rng.random() < 0.8
        if has:
            names.insert(rng.randrange(len(names) + 1), dscname)
            if rng.random() < 0.3:
                names.append(b"second_2.0-1.dsc")       # a later *.dsc is not the one
        rows = b"".join(b"\n " + b"d41d8cd98f00b204e9800998ecf8427e 0 devel optional " + n for n in names)
        ct = b"Format: 1.8\nSource: foo\nVersion: 1.0-1\nMaintainer: A B <a@b.c>\n" + (b"Files:" + rows + b"\n" if names else b"")
        gc.append(("tgetdsc", [ct, dscname if has else b"", dt]))
        gw.append("same " + dexp["Source"] if has else "none")
    gi = chk.run_impl(gc)
    chk.record("changes-get-dsc", gc, gi, lambda c, r: r.startswith("same"))
    for c, i, w in zip(gc, gi, gw):
        if i != w:
            chk.violate({"kind": "property", "case": lib.show_case(c), "impl": i[:300], "expected": w,
                         "explanation": "Changes.GetDSC did not return the parse of the first listed .dsc file beside the .changes (or did not report that there is none)"})
    # debian/control: one source paragraph then binaries
    docs = []
    for _ in range(n):
        st, sexp, _ = gen_doc(rng, "source_par")
        bins = [gen_doc(rng, "binary_par") for _ in range(rng.randrange(1, 4))]
        text = st + b"".join(b"\n" + bt for bt, _, _ in bins)
        docs.append((text, sexp, [b[1] for b in bins]))
    cases = [("tcontrol", [t]) for t, _, _ in docs]
    impl, model = chk.run_both(cases)
    chk.compare("debian-control", cases, impl, model)
    # ParseControl (and the index parsers) take the CALLER's *bufio.Reader: whatever its buffer size (bufio.NewReaderSize with
    # 16 ... 65536 bytes), the result is the one for the default reader - nothing read ahead is lost between the source
    # paragraph and the binaries
    bc, bw = [], []
    for (c, i) in list(zip(cases, impl))[::3]:
        for size in (b"16", b"512", b"4095", b"4096", b"65536"):
            bc.append(("tcontrol", [c[1][0], size])); bw.append(i)
    bi = chk.run_impl(bc)
    chk.record("debian-control-through-a-caller-sized-bufio-reader", bc, bi)
    for c, got, want in zip(bc, bi, bw):
        if got != want:
            chk.violate({"kind": "property", "case": lib.show_case(c), "impl": got[:700], "with_default_reader": want[:700],
                         "explanation": "ParseControl on a bufio.Reader of another buffer size does not return the source and binary paragraphs of the document"})
    fc = [("tdocfile", [b"control", t]) for t, _, _ in docs[::5]]
    fr = chk.run_impl(fc)
    chk.record("control-file-parser", fc, fr, lambda c, r: r == "same")
    for c, r in zip(fc, fr):
        if r != "same":
            chk.violate({"kind": "property", "case": lib.show_case(c), "impl": r[:1500],
                         "explanation": "ParseControlFile does not return what ParseControl returns for the same debian/control"})
    acc = chk.run_impl([("taccess", [b"control", t]) for t, _, _ in docs[::3]])
    for (t, sexp, bexps), a in zip(docs[::3], acc):
        check_access(chk, "control", t, sexp, {}, a)
    for c, i, (t, sexp, bexps) in zip(cases, impl, docs):
        if not i.startswith("ok <<"):
            chk.violate({"kind": "property", "case": lib.show_case(c), "impl": i[:600], "explanation": "a well-formed debian/control was rejected"}); continue
        blocks = [b.split(" >>")[0].strip() for b in i.split("<< ")[1:]]
        exps = [sexp] + bexps
        if len(blocks) != len(exps):
            chk.violate({"kind": "property", "case": lib.show_case(c), "impl": i[:600], "explanation": "wrong number of binary paragraphs"}); continue
        for blk, exp in zip(blocks, exps):
            check_fields(chk, c, "ok " + blk, exp, "debian/control")
    # Packages and Sources indexes
    for kind in ("binary_index", "source_index"):
        docs = []
        for _ in range(n // 2):
            paras = [gen_doc(rng, kind) for _ in range(rng.randrange(1, 4))]
            docs.append((b"\n".join(p[0] for p in paras), [p[1] for p in paras], paras[0][2]))
        cases = [("tindex", [kind.encode(), t]) for t, _, _ in docs]
        impl, model = chk.run_both(cases)
        chk.compare(kind, cases, impl, model)
        bc, bw = [], []
        for (c, i) in list(zip(cases, impl))[::4]:
            for size in (b"16", b"4095", b"65536"):
                bc.append(("tindex", [c[1][0], c[1][1], size])); bw.append(i)
        bi = chk.run_impl(bc)
        chk.record(kind + "-through-a-caller-sized-bufio-reader", bc, bi)
        for c, got, want in zip(bc, bi, bw):
            if got != want:
                chk.violate({"kind": "property", "case": lib.show_case(c), "impl": got[:700], "with_default_reader": want[:700],
                             "explanation": "an index parser on a bufio.Reader of another buffer size does not return the entries of the document"})
        for c, i, (t, exps, facts) in zip(cases, impl, docs):
            if not i.startswith("ok ["):
                chk.violate({"kind": "property", "case": lib.show_case(c), "impl": i[:600], "explanation": "a well-formed index was rejected"}); continue
            blocks = [b.split(" >>")[0].strip() for b in i.split("<< ")[1:]]
            if len(blocks) != len(exps):
                chk.violate({"kind": "property", "case": lib.show_case(c), "impl": i[:600], "explanation": "wrong number of index entries"}); continue
            for blk, exp in zip(blocks, exps):
                check_fields(chk, c, "ok " + blk, exp, kind)
        acc = chk.run_impl([("taccess", [kind.encode(), t]) for t, _, _ in docs[::3]])
        for (t, exps, facts), a in zip(docs[::3], acc):
            check_access(chk, kind, t, exps[0], facts, a)
        # the on-demand dependency fields (Get*): model = parse of the paragraph's text for that field, empty when absent
        # or malformed; expectation from the document model
        oc = [("tondemand", [kind.encode(), t]) for t, _, _ in docs]
        oi, om = chk.run_both(oc)
        chk.compare(kind + "-on-demand-dependency-fields", oc, oi, om)
        for c, i, (t, exps, facts) in zip(oc, oi, docs):
            want = "ok " + " ".join("%s=%s" % (f, facts["ondemand"][f]) for f in ONDEMAND[kind])
            if i != want:
                chk.violate({"kind": "property", "case": lib.show_case(c), "impl": i[:900], "expected": want[:900],
                             "explanation": "an on-demand dependency accessor of the %s does not return the parsed form of the field written in the document" % kind})
    # best checksums
    docs = []
    for _ in range(200):
        files = [(b"f%d" % k, rng.randrange(1000)) for k in range(rng.randrange(1, 4))]
        use256 = rng.random() < 0.6
        use512 = rng.random() < 0.7
        t = b""; e256 = e512 = None
        if use256:
            v, e256 = gen_field(rng, "hash:sha256", files); t += b"Checksums-Sha256:" + v + b"\n"
        if use512:
            v, e512 = gen_field(rng, "hash:sha512", files); t += b"Checksums-Sha512:" + v + b"\n"
        if not t:
            t = b"X: y\n"
        docs.append((t, e256 if use256 else (e512 if use512 else "[]")))
    acc = chk.run_impl([("taccess", [b"best_checksums", t]) for t, _ in docs])
    chk.record("best-checksums", [("taccess", [b"best_checksums", t]) for t, _ in docs], acc)
    for (t, e), a in zip(docs, acc):
        rows = [r.strip("() ").split() for r in e.strip("[] ").split(" ) ")] if e != "[]" else []
        bh = show_list([hx(b"dists/sid/main/source/by-hash/" + bytes.fromhex(r[4][1:]) + b"/" + bytes.fromhex(r[1][1:])) for r in rows])
        if a != "ok Checksums=" + e + " ByHashPaths=" + bh:
            chk.violate({"kind": "property", "case": lib.show_case(("taccess", [b"best_checksums", t])), "impl": a[:800], "expected": e[:800],
                         "explanation": "the best-checksum selector does not return the SHA-256 (else SHA-512) entries tagged with their own algorithm"})
    # model vs implementation on mutated documents (error behaviour of the typed parsers)
    mcases, icases = [], []
    for kind in ("dsc", "changes", "deb_control"):
        for _ in range(chk.n(400, 8000)):
            t, _, _ = gen_doc(rng, kind)
            t = gen.mutate(rng, t, [b"\n", b" ", b":", b",", b"x", b"-", b"(", b")", b"[", b"1", b"\t"])
            if b"Filename" in t:
                continue          # DSC.Filename / Changes.Filename are set by the parser, not a field of the document
            icases.append(("tdoc", [kind.encode(), t])); mcases.append(("cunmarshal", [kind.encode(), t]))
    impl = chk.run_impl(icases); model = chk.run_model(mcases)
    chk.compare("mutated-documents", mcases, impl, model, spec=False)
    chk.extra["schema_regenerated_changed"] = chk.schema_changed
    chk.assumptions += ["struct tags are regenerated from the compiled types on every run (schemadump) and the schema lemmas re-checked",
                        "path.Join is computed by Python's posixpath for the AbsFiles accessor"]


def check_access(chk, kind, text, exp, facts, a):
    case = ("taccess", [kind.encode(), text])
    if not a.startswith("ok"):
        chk.violate({"kind": "property", "case": lib.show_case(case), "impl": a[:400], "explanation": "accessors could not be evaluated on a well-formed document"}); return
    if a.endswith(" Pure=F"):
        chk.violate({"kind": "property", "case": lib.show_case(case), "impl": a[:800],
                     "explanation": "evaluating the accessors changed the parsed document, or a second evaluation gave other answers (the parsed fields and the accessors no longer agree with the model afterwards)"})
        return
    got = dict(kv.split("=", 1) for kv in split_record(a[3:]))
    want = {}
    if kind == "dsc":
        ups = exp["Uploaders"]
        m = exp["Maintainer"]
        want["Maintainers"] = show_list([m] + (ups.strip("[] ").split() if ups != "[]" else []))
        want["HasArchAll"] = "T" if "( x616c6c x616c6c x616c6c )" in exp["Architectures"] else "F"
        if "Files" in facts["present"]:
            rows = exp["Files"].strip("[] ").split(" ) ")
            out = []
            for r in rows:
                f = r.strip("() ").split()
                name = bytes.fromhex(f[3][1:])
                f[3] = hx(posixpath.join("/base/dir", name.decode()).encode())
                out.append("( " + " ".join(f) + " )")
            want["AbsFiles"] = show_list(out)
        want["Filename"] = hx(b"/base/dir/x.dsc")
        names = [bytes.fromhex(r.strip("() ").split()[3][1:]) for r in exp["Files"].strip("[] ").split(" ) ")] if exp["Files"] != "[]" else []
        ds = [n for n in names if b".debian." in n]
        want["DebianSource"] = hx(ds[0] if ds else b"<none>")
    elif kind == "changes":
        if "Files" in facts["present"]:
            out = []
            for r in exp["Files"].strip("[] ").split(" ) "):
                f = r.strip("() ").split()
                f[4] = hx(posixpath.join("/base/dir", bytes.fromhex(f[4][1:]).decode()).encode())
                out.append("( " + " ".join(f) + " )")
            want["AbsFiles"] = show_list(out)
        want["Filename"] = hx(b"/base/dir/x.changes")
    elif kind == "control":
        ups = exp["Uploaders"]
        want["Maintainers"] = show_list([exp["Maintainer"]] + (ups.strip("[] ").split() if ups != "[]" else []))
    elif kind == "binary_index":
        src = bytes.fromhex(exp["Source"][1:]); pkg = bytes.fromhex(exp["Package"][1:])
        want["SourcePackage"] = hx(pkg if src == b"" else src.split(b" ")[0])
        for f in ("Depends", "Conflicts", "Pre-Depends", "Breaks", "Suggests", "Replaces", "Built-Using"):
            want[GETTER[f]] = facts["ondemand"][f]
    elif kind == "source_index":
        for f in ("Build-Depends", "Build-Depends-Indep", "Build-Depends-Arch"):
            want[GETTER[f]] = facts["ondemand"][f]
    elif kind == "deb_control":
        src = bytes.fromhex(exp["Source"][1:]); pkg = bytes.fromhex(exp["Package"][1:])
        # the source-package NAME: "Source: name (version)" when source and binary versions differ (every binNMU) - the first word
        want["SourceName"] = hx(src.split()[0] if src.split() else (src if src else pkg))
    for k, v in want.items():
        if got.get(k) != v:
            chk.violate({"kind": "property", "case": lib.show_case(case), "accessor": k, "impl_value": str(got.get(k))[:500], "expected": v[:500],
                         "explanation": "the accessor %s disagrees with the document model" % k})
            return


def replay(chk, d):
    c = lib.case_from_replay(d)
    i = chk.run_impl([c])
    print("impl:", i[0][:800])
    return 0
