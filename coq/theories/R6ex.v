From Coq Require Import List Ascii String Bool Arith Lia.
Require Import GS R2 R3 R5 R6.
Import ListNotations.
Definition f1 : lfield := {| lk := s "Package"; lw0 := []; lw1 := [sp]; ll0 := s "a"; lw2 := [cr];
   lits := [Comment (s " note"); Cont tab (s "x  y") [cr]; Cont sp [] []] |}.
Definition f2 : lfield := {| lk := s "Depends"; lw0 := [sp]; lw1 := []; ll0 := []; lw2 := []; lits := [Cont sp (s "b") []] |}.
Definition d1 : list lpara := [([s "# head"; [cr]; s "  "], [f1; f2], [cr])].
Ltac fr := repeat (constructor; try discriminate).
Ltac okf := repeat split; try (vm_compute; fr; fail); try discriminate; try reflexivity;
  try (repeat constructor; try (left; reflexivity); try (right; reflexivity); try (vm_compute; fr; fail); try discriminate; fail).
Lemma f1_ok : lfield_ok f1.
Proof. unfold lfield_ok, f1; cbn [lk lw0 lw1 ll0 lw2 lits]. okf. Qed.
Lemma f2_ok : lfield_ok f2.
Proof. unfold lfield_ok, f2; cbn [lk lw0 lw1 ll0 lw2 lits]. okf. Qed.
Example C07_nonvacuous : Forall lpara_ok d1 /\ Forall skip_ok [s "#end"] /\ Forall (free nl) (doc_lines d1 [s "#end"]) /\
  read_all (unlines (doc_lines d1 [s "#end"])) = Some [ {| order := [s "Package"; s "Depends"];
     values := [(s "Package", s "a" ++ [nl] ++ s "x  y" ++ [nl; nl]); (s "Depends", s "b" ++ [nl])] |} ].
Proof.
  assert (W : Forall lpara_ok d1).
  { constructor; [|constructor]. cbn. split; [|split; [|reflexivity]].
    - constructor; [right; left; reflexivity|]. constructor; [left; reflexivity|]. constructor; [right; right; split; reflexivity|constructor].
    - split; [discriminate|]. split; [constructor; [apply f1_ok|constructor; [apply f2_ok|constructor]]|].
      repeat constructor; cbn; intuition discriminate. }
  assert (Wf : Forall skip_ok [s "#end"]) by (constructor; [right; left; reflexivity|constructor]).
  assert (F : Forall (free nl) (doc_lines d1 [s "#end"])) by (vm_compute; fr).
  split; [exact W|split; [exact Wf|split; [exact F|]]]. rewrite (C07_read_text d1 _ W Wf F). reflexivity.
Qed.
