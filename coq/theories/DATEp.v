(* C17: the model of the trailer date (DATE.v) reads every well-formed RFC 2822-style date to exactly its instant and zone
   offset: the rendering of (weekday, day, month, year, hour, minute, second, sign, zone hours, zone minutes) - the day of
   the month with one or two digits - parses to the Unix time of that civil time minus the offset, and to that offset. *)
From Coq Require Import List Ascii String Bool Arith NArith ZArith Lia.
Require Import GS V3 DATE.
Import ListNotations.
Open Scope Z_scope.

Definition digit (k : Z) : ascii := ascii_of_nat (48 + Z.to_nat k).
Definition d2 (n : Z) : str := [digit (n / 10); digit (n mod 10)].
Definition d4 (n : Z) : str := [digit (n / 1000); digit (n / 100 mod 10); digit (n / 10 mod 10); digit (n mod 10)].

Lemma digit_ok k : 0 <= k < 10 -> is_digit (digit k) = true /\ dg (digit k) = k /\ ceq (digit k) sp = false.
Proof.
  intros H. assert (E : k = 0 \/ k = 1 \/ k = 2 \/ k = 3 \/ k = 4 \/ k = 5 \/ k = 6 \/ k = 7 \/ k = 8 \/ k = 9) by lia.
  repeat (destruct E as [->|E]; [vm_compute; auto|]). subst. vm_compute. auto.
Qed.

Lemma getnum_d2 n r fixed : 0 <= n < 100 -> getnum (d2 n ++ r) fixed = Some (n, r).
Proof.
  intros H. unfold d2. cbn [app]. unfold getnum.
  destruct (digit_ok (n / 10)) as (A1&A2&_); [split; [apply Z.div_pos; lia|apply Z.div_lt_upper_bound; lia]|].
  destruct (digit_ok (n mod 10)) as (B1&B2&_); [apply Z.mod_pos_bound; lia|].
  rewrite A1, B1, A2, B2. f_equal. f_equal. pose proof (Z.div_mod n 10 ltac:(lia)). lia.
Qed.
Lemma getnum_d1 k c r : 0 <= k < 10 -> is_digit c = false -> getnum (digit k :: c :: r) false = Some (k, c :: r).
Proof. intros H Hc. unfold getnum. destruct (digit_ok k H) as (A1&A2&_). now rewrite A1, Hc, A2. Qed.

Lemma year4_d4 n r : 0 <= n < 10000 -> year4 (d4 n ++ r) = Some (n, r).
Proof.
  intros H. unfold d4. cbn [app]. unfold year4.
  destruct (digit_ok (n / 1000)) as (A1&A2&_); [split; [apply Z.div_pos; lia|apply Z.div_lt_upper_bound; lia]|].
  destruct (digit_ok (n / 100 mod 10)) as (B1&B2&_); [apply Z.mod_pos_bound; lia|].
  destruct (digit_ok (n / 10 mod 10)) as (C1&C2&_); [apply Z.mod_pos_bound; lia|].
  destruct (digit_ok (n mod 10)) as (D1&D2&_); [apply Z.mod_pos_bound; lia|].
  rewrite A1, B1, C1, D1, A2, B2, C2, D2. cbn [andb]. f_equal. f_equal.
  Local Ltac Zify.zify_post_hook ::= Z.div_mod_to_equations.
  lia.
Qed.

Lemma skip_comma_sp c r : ceq c sp = false -> skip_lit (s ", " ++ c :: r) (s ", ") = Some (c :: r).
Proof. intros H. unfold skip_lit. cbn. now rewrite H. Qed.
Lemma skip_sp c r : ceq c sp = false -> skip_lit (s " " ++ c :: r) (s " ") = Some (c :: r).
Proof. intros H. unfold skip_lit. cbn. now rewrite H. Qed.
Lemma skip_colon x : skip_lit (s ":" ++ x) (s ":") = Some x.
Proof. unfold skip_lit. cbn. reflexivity. Qed.

Lemma lookup_day wd rest : (wd < 7)%nat -> lookup_tab 0 day_names (nth wd day_names [] ++ rest) = Some (Z.of_nat wd, rest).
Proof. intros H. do 7 (destruct wd as [|wd]; [reflexivity|]). lia. Qed.
Lemma lookup_month m rest : (m < 12)%nat -> lookup_tab 1 month_names (nth m month_names [] ++ rest) = Some (Z.of_nat m + 1, rest).
Proof. intros H. do 12 (destruct m as [|m]; [reflexivity|]). lia. Qed.

Record wdate := { w_wd : nat; w_day : Z; w_mon : nat (* 0 = Jan *); w_year : Z; w_hour : Z; w_min : Z; w_sec : Z;
                  w_east : bool; w_zh : Z; w_zm : Z; w_short_day : bool (* "2" instead of "02" *) }.
(* the layout is met: every field is in the range of its column; whether the day exists in the month is judged separately *)
Record wf_shape (f : wdate) : Prop := {
  f_wd : (w_wd f < 7)%nat; f_mon : (w_mon f < 12)%nat;
  f_day : 0 <= w_day f < 100;          (* anything that can be written with two digits *)
  f_year : 0 <= w_year f < 10000; f_hour : 0 <= w_hour f < 24; f_min : 0 <= w_min f < 60; f_sec : 0 <= w_sec f < 60;
  f_zh : 0 <= w_zh f <= 24; f_zm : 0 <= w_zm f <= 60;
  f_short : w_short_day f = true -> w_day f < 10 }.

Definition day_text (f : wdate) : str := if w_short_day f then [digit (w_day f)] else d2 (w_day f).
Definition render_when (f : wdate) : str :=
  nth (w_wd f) day_names [] ++ s ", " ++ day_text f ++ s " " ++ nth (w_mon f) month_names [] ++ s " " ++ d4 (w_year f) ++
  s " " ++ d2 (w_hour f) ++ s ":" ++ d2 (w_min f) ++ s ":" ++ d2 (w_sec f) ++ s " " ++
  (if w_east f then "+"%char else "-"%char) :: d2 (w_zh f) ++ d2 (w_zm f).
Definition offset_of (f : wdate) : Z := let o := (w_zh f * 60 + w_zm f) * 60 in if w_east f then o else - o.
Definition unix_of (f : wdate) : Z :=
  days_from_civil (w_year f) (Z.of_nat (w_mon f) + 1) (w_day f) * 86400 + w_hour f * 3600 + w_min f * 60 + w_sec f - offset_of f.

Lemma d2_head n r : 0 <= n < 100 -> exists c t, d2 n ++ r = c :: t /\ ceq c sp = false.
Proof.
  intros H. unfold d2. cbn [app]. eexists _, _. split; [reflexivity|].
  destruct (digit_ok (n / 10)) as (_&_&A); [split; [apply Z.div_pos; lia|apply Z.div_lt_upper_bound; lia]|]. exact A.
Qed.
Lemma month_head m r : (m < 12)%nat -> exists c t, nth m month_names [] ++ r = c :: t /\ ceq c sp = false /\ is_digit c = false.
Proof. intros H. do 12 (destruct m as [|m]; [eexists _, _; split; [reflexivity|split; reflexivity]|]). lia. Qed.
Lemma days_in_le m y : days_in m y <= 31.
Proof. unfold days_in. destruct (m =? 2); [destruct (is_leap y); lia|]. destruct (_ || _); lia. Qed.

Definition day_exists (f : wdate) : bool := (1 <=? w_day f) && (w_day f <=? days_in (Z.of_nat (w_mon f) + 1) (w_year f)).
Theorem parse_when_shape f : wf_shape f ->
  parse_when (render_when f) = if day_exists f then Some (unix_of f, offset_of f) else None.
Proof.
  intros [Hwd Hmon Hday Hyear Hhour Hmin Hsec Hzh Hzm Hshort].
  unfold parse_when, render_when.
  rewrite (lookup_day _ _ Hwd). cbn [bind].
  (* ", " then the day *)
  assert (Eday : exists c t, day_text f ++ s " " ++ nth (w_mon f) month_names [] ++ s " " ++ d4 (w_year f) ++ s " " ++ d2 (w_hour f) ++ s ":" ++
                   d2 (w_min f) ++ s ":" ++ d2 (w_sec f) ++ s " " ++ (if w_east f then "+"%char else "-"%char) :: d2 (w_zh f) ++ d2 (w_zm f) = c :: t /\ ceq c sp = false).
  { unfold day_text. destruct (w_short_day f) eqn:Sh.
    - cbn [app]. eexists _, _. split; [reflexivity|]. specialize (Hshort eq_refl). now destruct (digit_ok (w_day f) ltac:(lia)) as (_&_&A).
    - apply d2_head. lia. }
  destruct Eday as (c&t&Et&Ec). rewrite Et, (skip_comma_sp c t Ec), <- Et. cbn [bind]. clear c t Et Ec.
  (* the day itself *)
  destruct (month_head (w_mon f) (s " " ++ d4 (w_year f) ++ s " " ++ d2 (w_hour f) ++ s ":" ++ d2 (w_min f) ++ s ":" ++ d2 (w_sec f) ++ s " " ++
              (if w_east f then "+"%char else "-"%char) :: d2 (w_zh f) ++ d2 (w_zm f)) Hmon) as (mc&mt&Em&Emsp&Emd).
  assert (Gd : getnum (day_text f ++ s " " ++ nth (w_mon f) month_names [] ++ s " " ++ d4 (w_year f) ++ s " " ++ d2 (w_hour f) ++ s ":" ++
                   d2 (w_min f) ++ s ":" ++ d2 (w_sec f) ++ s " " ++ (if w_east f then "+"%char else "-"%char) :: d2 (w_zh f) ++ d2 (w_zm f)) false
               = Some (w_day f, s " " ++ nth (w_mon f) month_names [] ++ s " " ++ d4 (w_year f) ++ s " " ++ d2 (w_hour f) ++ s ":" ++
                   d2 (w_min f) ++ s ":" ++ d2 (w_sec f) ++ s " " ++ (if w_east f then "+"%char else "-"%char) :: d2 (w_zh f) ++ d2 (w_zm f))).
  { unfold day_text. destruct (w_short_day f) eqn:Sh.
    - specialize (Hshort eq_refl). cbn [app s list_ascii_of_string]. apply getnum_d1; [lia|reflexivity].
    - apply getnum_d2. lia. }
  rewrite Gd. cbn [bind]. clear Gd.
  rewrite Em, (skip_sp mc mt Emsp), <- Em. cbn [bind].
  rewrite (lookup_month _ _ Hmon). cbn [bind].
  (* year *)
  assert (Ey : exists c t, d4 (w_year f) ++ s " " ++ d2 (w_hour f) ++ s ":" ++ d2 (w_min f) ++ s ":" ++ d2 (w_sec f) ++ s " " ++
              (if w_east f then "+"%char else "-"%char) :: d2 (w_zh f) ++ d2 (w_zm f) = c :: t /\ ceq c sp = false).
  { unfold d4. cbn [app]. eexists _, _. split; [reflexivity|].
    destruct (digit_ok (w_year f / 1000)) as (_&_&A); [split; [apply Z.div_pos; lia|apply Z.div_lt_upper_bound; lia]|]. exact A. }
  destruct Ey as (c&t&Et&Ec). rewrite Et, (skip_sp c t Ec), <- Et. cbn [bind]. clear c t Et Ec.
  rewrite (year4_d4 _ _ Hyear). cbn [bind].
  (* hour *)
  destruct (d2_head (w_hour f) (s ":" ++ d2 (w_min f) ++ s ":" ++ d2 (w_sec f) ++ s " " ++
              (if w_east f then "+"%char else "-"%char) :: d2 (w_zh f) ++ d2 (w_zm f)) ltac:(lia)) as (c&t&Et&Ec).
  rewrite Et, (skip_sp c t Ec), <- Et. cbn [bind]. clear c t Et Ec.
  rewrite (getnum_d2 (w_hour f) _ false) by lia. cbn [bind].
  destruct (Z.leb_spec 24 (w_hour f)); [lia|].
  rewrite skip_colon. cbn [bind]. rewrite (getnum_d2 (w_min f) _ true) by lia. cbn [bind].
  destruct (Z.leb_spec 60 (w_min f)); [lia|].
  rewrite skip_colon. cbn [bind]. rewrite (getnum_d2 (w_sec f) _ true) by lia. cbn [bind].
  destruct (Z.leb_spec 60 (w_sec f)); [lia|].
  (* no fraction: a blank follows *)
  change (drop_fraction (s " " ++ (if w_east f then "+"%char else "-"%char) :: d2 (w_zh f) ++ d2 (w_zm f)))
    with (s " " ++ (if w_east f then "+"%char else "-"%char) :: d2 (w_zh f) ++ d2 (w_zm f)).
  rewrite (skip_sp (if w_east f then "+"%char else "-"%char) (d2 (w_zh f) ++ d2 (w_zm f))) by (destruct (w_east f); reflexivity).
  cbn [bind].
  (* zone *)
  assert (Z1 : getnum (d2 (w_zh f)) true = Some (w_zh f, [])) by (rewrite <- (app_nil_r (d2 (w_zh f))); apply getnum_d2; lia).
  assert (Z2 : getnum (d2 (w_zm f)) true = Some (w_zm f, [])) by (rewrite <- (app_nil_r (d2 (w_zm f))); apply getnum_d2; lia).
  unfold num_tz. unfold d2 at 1 2. cbn [app]. fold (d2 (w_zh f)). fold (d2 (w_zm f)). rewrite Z1, Z2.
  destruct (Z.ltb_spec 24 (w_zh f)); [lia|]. destruct (Z.ltb_spec 60 (w_zm f)); [lia|]. cbn [orb].
  unfold unix_of, offset_of. destruct (w_east f); cbn [bind]; cbv zeta.
  - change (ceq "+"%char "+"%char) with true. cbv iota. unfold day_exists.
    destruct (Z.ltb_spec (w_day f) 1); destruct (Z.leb_spec 1 (w_day f)); try lia; cbn [orb andb]; [reflexivity|].
    destruct (Z.ltb_spec (days_in (Z.of_nat (w_mon f) + 1) (w_year f)) (w_day f)); destruct (Z.leb_spec (w_day f) (days_in (Z.of_nat (w_mon f) + 1) (w_year f))); try lia; reflexivity.
  - change (ceq "-"%char "+"%char) with false. change (ceq "-"%char "-"%char) with true. cbv iota. unfold day_exists.
    destruct (Z.ltb_spec (w_day f) 1); destruct (Z.leb_spec 1 (w_day f)); try lia; cbn [orb andb]; [reflexivity|].
    destruct (Z.ltb_spec (days_in (Z.of_nat (w_mon f) + 1) (w_year f)) (w_day f)); destruct (Z.leb_spec (w_day f) (days_in (Z.of_nat (w_mon f) + 1) (w_year f))); try lia; reflexivity.
Qed.

(* a well-formed date: the shape, and the day exists in that month of that year *)
Definition wf_date (f : wdate) : Prop := wf_shape f /\ day_exists f = true.
Theorem parse_when_render f : wf_date f -> parse_when (render_when f) = Some (unix_of f, offset_of f).
Proof. intros [W D]. rewrite (parse_when_shape f W). now rewrite D. Qed.
(* a day that does not exist - "00", "31 Apr", "29 Feb" of a common year, "32" ... - is refused (a malformed date is an error) *)
Theorem parse_when_no_such_day f : wf_shape f -> day_exists f = false -> parse_when (render_when f) = None.
Proof. intros W D. rewrite (parse_when_shape f W). now rewrite D. Qed.
Print Assumptions parse_when_render.
Print Assumptions parse_when_no_such_day.

(* a concrete date meets the hypotheses (non-vacuity), with one and with two digits for the day *)
Example wf_date_example :
  wf_date {| w_wd := 1; w_day := 2; w_mon := 0; w_year := 2006; w_hour := 15; w_min := 4; w_sec := 5; w_east := false; w_zh := 7; w_zm := 0; w_short_day := true |} /\
  render_when {| w_wd := 1; w_day := 2; w_mon := 0; w_year := 2006; w_hour := 15; w_min := 4; w_sec := 5; w_east := false; w_zh := 7; w_zm := 0; w_short_day := true |}
    = s "Mon, 2 Jan 2006 15:04:05 -0700" /\
  render_when {| w_wd := 1; w_day := 2; w_mon := 0; w_year := 2006; w_hour := 15; w_min := 4; w_sec := 5; w_east := false; w_zh := 7; w_zm := 0; w_short_day := false |}
    = s "Mon, 02 Jan 2006 15:04:05 -0700" /\
  unix_of {| w_wd := 1; w_day := 2; w_mon := 0; w_year := 2006; w_hour := 15; w_min := 4; w_sec := 5; w_east := false; w_zh := 7; w_zm := 0; w_short_day := true |} = 1136239445.
Proof. split; [split; [constructor; cbn; try lia; vm_compute; intuition congruence|reflexivity]|]. split; [reflexivity|]. split; reflexivity. Qed.

(* what the model refuses (each is what time.Parse refuses; the tie compares them on mutated dates): *)
Example refused_dates : forall x, In x (map s ["Mon, 32 Jan 2006 15:04:05 -0700"; "Thu, 29 Feb 2023 23:59:59 +0000"; "Mon, 02 Jan 2006 24:04:05 -0700";
   "Mon, 02 Jan 2006 15:60:05 -0700"; "Mon, 02 Jan 2006 15:04:60 -0700"; "Mon, 02 Jan 2006 15:04:05 -2500"; "Mon, 02 Jan 2006 15:04:05 0700";
   "Mon, 02 Jan 2006 15:04:05 -0700 x"; "Mon 02 Jan 2006 15:04:05 -0700"; "2006-01-02"; "Mon, 02 Jan 06 15:04:05 -0700"; "Mon, 02 Jan 2006 15:4:05 -0700"; ""]%string) ->
  parse_when x = None.
Proof. intros x H. repeat (destruct H as [<-|H]; [vm_compute; reflexivity|]). contradiction. Qed.
