(* C20 non-vacuity: concrete file systems, handles and fault oracles meeting the hypotheses of the C20 theorems:
   a successful copy, a copy whose third primitive call fails, a successful and a failed move, a removal, and a
   handle listing '../secret' that is refused before anything is touched. *)
From Coq Require Import List Ascii String Bool Arith Lia.
Require Import GS U20 U20b U20c U20d U20e.
Import ListNotations.

Definition h0 : handle := {| h_dir := s "up"; h_file := s "p.changes"; h_listed := [s "p.deb"; s "p.dsc"] |}.
Definition fs0 : fsys := [((s "up", s "p.changes"), s "C"); ((s "up", s "p.deb"), s "D"); ((s "up", s "p.dsc"), s "S"); ((s "", s "secret"), s "X")].
Definition x0 : st := {| fs := fs0; log := []; tick := 0 |}.
Definition never (_ : nat) : bool := false.
Definition third (n : nat) : bool := n =? 2.

Example C20w_premises : ~ In (h_file h0) (h_listed h0) /\ NoDup (h_listed h0) /\ h_dir h0 <> s "in" /\ fs_get (s "in", h_file h0) (fs x0) = None.
Proof.
  repeat split.
  - cbn. intros [E|[E|[]]]; discriminate.
  - repeat constructor; cbn; intuition discriminate.
  - discriminate.
Qed.
Example C20w_copy_succeeds : exists x', do_copy never h0 (s "in") x0 = (x', true) /\
  fs_get (s "in", s "p.changes") (fs x') = Some (s "C") /\ fs_get (s "in", s "p.deb") (fs x') = Some (s "D") /\
  fs_get (s "up", s "p.changes") (fs x') = Some (s "C") /\ fs_get (s "", s "secret") (fs x') = Some (s "X").
Proof. eexists. split; [vm_compute; reflexivity|]. vm_compute. repeat split. Qed.
Example C20w_copy_fails : exists x', do_copy third h0 (s "in") x0 = (x', false) /\ fs_get (s "in", s "p.changes") (fs x') = None.
Proof. eexists. split; [vm_compute; reflexivity|]. vm_compute. reflexivity. Qed.
Example C20w_move_succeeds : exists x', do_move never h0 (s "in") x0 = (x', true) /\
  fs_get (s "in", s "p.changes") (fs x') = Some (s "C") /\ fs_get (s "up", s "p.changes") (fs x') = None.
Proof. eexists. split; [vm_compute; reflexivity|]. vm_compute. repeat split. Qed.
Example C20w_move_fails : exists x', do_move third h0 (s "in") x0 = (x', false) /\
  fs_get (s "up", s "p.changes") (fs x') = Some (s "C") /\ fs_get (s "in", s "p.changes") (fs x') = None.
Proof. eexists. split; [vm_compute; reflexivity|]. vm_compute. repeat split. Qed.
Example C20w_remove : exists x', do_remove never h0 x0 = (x', true) /\ fs_get (s "up", s "p.changes") (fs x') = None /\
  fs_get (s "", s "secret") (fs x') = Some (s "X").
Proof. eexists. split; [vm_compute; reflexivity|]. vm_compute. repeat split. Qed.
Definition hbad : handle := {| h_dir := s "up"; h_file := s "p.changes"; h_listed := [s "p.deb"; s "../secret"] |}.
Example C20w_traversal : listed_ok hbad = false /\ do_move never hbad (s "in") x0 = (x0, false) /\ do_copy never hbad (s "in") x0 = (x0, false).
Proof. vm_compute. repeat split. Qed.

(* a history: copy, then remove through the same handle *)
Example C20w_copy_then_remove : exists x1 x2, do_copy never h0 (s "in") x0 = (x1, true) /\ do_remove never (after h0 (s "in") true) x1 = (x2, true) /\
  fs_get (s "in", s "p.changes") (fs x2) = None /\ fs_get (s "up", s "p.changes") (fs x2) = Some (s "C") /\ fs_get (s "up", s "p.deb") (fs x2) = Some (s "D").
Proof. eexists. eexists. split; [vm_compute; reflexivity|]. split; [vm_compute; reflexivity|]. vm_compute. repeat split. Qed.

(* histories: move then remove; copy then move on to a second destination *)
Example C20w_move_then_remove : exists x1 x2, do_move never h0 (s "in") x0 = (x1, true) /\ do_remove never (after h0 (s "in") true) x1 = (x2, true) /\
  fs_get (s "in", s "p.deb") (fs x2) = None /\ fs_get (s "up", s "p.deb") (fs x2) = None /\ fs_get (s "", s "secret") (fs x2) = Some (s "X").
Proof. eexists. eexists. split; [vm_compute; reflexivity|]. split; [vm_compute; reflexivity|]. vm_compute. repeat split. Qed.
Example C20w_copy_then_move : exists x1 x2, do_copy never h0 (s "in") x0 = (x1, true) /\ do_move never (after h0 (s "in") true) (s "in2") x1 = (x2, true) /\
  fs_get (s "in2", s "p.dsc") (fs x2) = Some (s "S") /\ fs_get (s "in", s "p.dsc") (fs x2) = None /\ fs_get (s "up", s "p.dsc") (fs x2) = Some (s "S").
Proof. eexists. eexists. split; [vm_compute; reflexivity|]. split; [vm_compute; reflexivity|]. vm_compute. repeat split. Qed.
