(* C13: iterate (render_ar members) = members *)
From Coq Require Import List Ascii String Bool Arith ZArith Lia.
Require Import GS AR.
Import ListNotations.

Definition pad (w : nat) (x : str) : str := x ++ repeat sp (w - List.length x).
Lemma pad_length w x : List.length x <= w -> List.length (pad w x) = w.
Proof. intros H. unfold pad. rewrite app_length, repeat_length. lia. Qed.

(* m_pad: the byte that pads odd-sized data to even length - the format does not fix it (ar(1) writes a newline) *)
Record member := { m_name : str; m_slash : bool; m_ts : str; m_uid : str; m_gid : str;
                   m_mode : str; m_size : str; m_data : str; m_pad : ascii }.

Definition all_digits (x : str) : Prop := Forall (fun c => is_digit c = true) x.
(* the decimal text t denotes n; the empty text (blank column) denotes 0 *)
Definition denotes (t : str) (n : Z) : Prop := all_digits t /\ digits_val 0 t = Some n.

Record wf_member (m : member) : Prop := {
  w_name_len : 1 <= List.length (m_name m) /\ List.length (m_name m) + (if m_slash m then 1 else 0) <= 16;
  (* the name as written (with its '/' terminator, if any) does not end in a space: leading blanks are fine *)
  w_name_trim : trim_right_sp (m_name m ++ (if m_slash m then [slash] else [])) = m_name m ++ (if m_slash m then [slash] else []);
  w_name_noslash : has_suffix [slash] (m_name m) = false;
  w_ts : all_digits (m_ts m) /\ List.length (m_ts m) <= 12;
  w_uid : all_digits (m_uid m) /\ List.length (m_uid m) <= 6;
  w_gid : all_digits (m_gid m) /\ List.length (m_gid m) <= 6;
  w_mode : (no_lead (m_mode m) /\ no_trail (m_mode m)) /\ List.length (m_mode m) <= 8;
  w_size : all_digits (m_size m) /\ List.length (m_size m) <= 10 /\
           digits_val 0 (m_size m) = Some (Z.of_nat (List.length (m_data m))) }.

Definition header (m : member) : str :=
  pad 16 (m_name m ++ if m_slash m then [slash] else []) ++ pad 12 (m_ts m) ++ pad 6 (m_uid m) ++
  pad 6 (m_gid m) ++ pad 8 (m_mode m) ++ pad 10 (m_size m) ++ [bq; nl].
Definition body (m : member) : str :=
  m_data m ++ (if Nat.odd (List.length (m_data m)) then [m_pad m] else []).
Definition render_members (ms : list member) : str := List.concat (map (fun m => header m ++ body m) ms).
Definition magic : str := s "!<arch>" ++ [nl].
Definition render_ar (ms : list member) : str := magic ++ render_members ms.

Definition num_of (t : str) : Z := match digits_val 0 t with Some n => n | None => 0%Z end.
Definition entry_of (off : nat) (m : member) : entry :=
  {| e_name := m_name m; e_ts := num_of (m_ts m); e_uid := num_of (m_uid m); e_gid := num_of (m_gid m);
     e_mode := m_mode m; e_size := Z.of_nat (List.length (m_data m)); e_hdr := off |}.
Fixpoint entries (off : nat) (ms : list member) : list entry :=
  match ms with
  | [] => []
  | m :: r => entry_of off m :: entries (off + 60 + List.length (body m)) r
  end.

(* ---------- slicing fixed-width concatenations ---------- *)
Lemma sub_app_left a b n : n <= List.length a -> sub (a ++ b) 0 n = firstn n a.
Proof. intros H. unfold sub. cbn [skipn]. rewrite firstn_app. replace (n - List.length a) with 0 by lia. cbn. now rewrite app_nil_r. Qed.
Lemma sub_skip a b off n : sub (a ++ b) (List.length a + off) n = sub b off n.
Proof.
  unfold sub. f_equal. rewrite skipn_app, skipn_all2 by lia.
  replace (List.length a + off - List.length a) with off by lia. reflexivity.
Qed.
Lemma sub_exact a b : sub (a ++ b) 0 (List.length a) = a.
Proof. rewrite sub_app_left by lia. apply firstn_all. Qed.

(* ---------- numeric columns ---------- *)
Lemma all_space_repeat n : all_space (repeat sp n).
Proof. induction n; cbn; constructor; auto. Qed.

Lemma digit_not_space c : is_digit c = true -> is_space c = false.
Proof.
  unfold is_digit, is_space. intros H. apply andb_true_iff in H as [H1 H2].
  apply Nat.leb_le in H1. apply Nat.leb_le in H2.
  repeat match goal with |- context [?a =? ?b] => destruct (Nat.eqb_spec a b); [lia|] end. reflexivity.
Qed.

Lemma digits_trim t : all_digits t -> trim_space t = t.
Proof.
  intros H. apply trim_space_id.
  - destruct t as [|c r]; [exact I|]. inversion H; subst. now apply digit_not_space.
  - unfold no_trail. assert (R : all_digits (rev t)) by (now apply Forall_rev).
    destruct (rev t) as [|c r]; [exact I|]. inversion R; subst. now apply digit_not_space.
Qed.

Lemma drop_sp_repeat n y : drop_sp (repeat sp n ++ y) = drop_sp y.
Proof. induction n as [|n IH]; [reflexivity|]. cbn [repeat app drop_sp]. destruct (ceq_spec sp sp); [exact IH|congruence]. Qed.
Lemma rev_repeat {A} (a : A) n : rev (repeat a n) = repeat a n.
Proof.
  induction n as [|n IH]; [reflexivity|]. cbn [repeat rev]. rewrite IH. clear IH.
  induction n as [|n IH]; [reflexivity|]. cbn [repeat app]. now rewrite IH.
Qed.
Lemma trim_right_sp_pad w t : trim_right_sp t = t -> trim_right_sp (pad w t) = t.
Proof. intros H. unfold pad, trim_right_sp in *. now rewrite rev_app_distr, rev_repeat, drop_sp_repeat. Qed.
Lemma trim_space_pad w t : trim_space t = t -> trim_space (pad w t) = t.
Proof.
  intros H. unfold pad, trim_space in *.
  (* trim_left (t ++ spaces): if t = [] everything is trimmed *)
  destruct t as [|c r].
  - cbn [app]. rewrite trim_left_all by apply all_space_repeat. reflexivity.
  - assert (L : is_space c = false).
    { destruct (is_space c) eqn:E; [|reflexivity]. exfalso.
      (* trim_right (trim_left (c::r)) = c :: r with c a space is impossible: the result has no leading space *)
      cbn [trim_left] in H. rewrite E in H.
      assert (NL : no_lead (trim_right (trim_left r))).
      { unfold trim_right. (* trim_right x keeps the head of x unless x is all spaces *)
        remember (trim_left r) as x. assert (NX : no_lead x) by (subst; apply no_lead_trim_left).
        clear -NX. destruct x as [|a x']; [exact I|]. cbn in NX.
        cbn [rev]. (* rev (trim_left (rev x' ++ [a])) : ends with a, head is ... *)
        (* the trimmed reverse is some prefix-stripped list ending in a; its reverse starts with a *)
        assert (G : forall y, exists z, trim_left (y ++ [a]) = z ++ [a]).
        { induction y as [|b y IHy]; cbn [app trim_left].
          - rewrite NX. now exists [].
          - destruct (is_space b); [exact IHy|]. now exists (b :: y). }
        destruct (G (rev x')) as [z ->]. rewrite rev_app_distr. cbn. exact NX. }
      rewrite H in NL. cbn in NL. congruence. }
    cbn [app trim_left]. rewrite L.
    change (c :: r ++ repeat sp (w - List.length (c :: r))) with ((c :: r) ++ repeat sp (w - List.length (c :: r))).
    rewrite trim_right_ws by apply all_space_repeat.
    cbn [trim_left] in H. rewrite L in H. exact H.
Qed.

Lemma atoi_digits t : t <> [] -> all_digits t -> atoi t = digits_val 0 t.
Proof.
  intros Hne H. destruct t as [|c r]; [congruence|]. inversion H as [|? ? Hc Hr]; subst.
  unfold atoi. destruct (ceq_spec c plus) as [->|]; [discriminate Hc|].
  destruct (ceq_spec c minus) as [->|]; [discriminate Hc|]. reflexivity.
Qed.

Lemma digits_val_some : forall t a, all_digits t -> exists n, digits_val a t = Some n.
Proof. induction t as [|c r IH]; intros a H; cbn; [eauto|]. inversion H; subst. rewrite H2. now apply IH. Qed.

Lemma field_num_pad w t : all_digits t -> field_num (pad w t) = Some (num_of t).
Proof.
  intros H. unfold field_num. rewrite (trim_space_pad w t (digits_trim t H)).
  destruct (str_eqb_spec t []) as [->|Hne]; [reflexivity|].
  rewrite (atoi_digits t Hne H). unfold num_of. destruct (digits_val_some t 0%Z H) as [n ->]. reflexivity.
Qed.

(* ---------- the header parses to the member ---------- *)
Lemma sub_skip' a b off n k : List.length a = k -> sub (a ++ b) (k + off) n = sub b off n.
Proof. intros <-. apply sub_skip. Qed.
Lemma sub_exact' a b k : List.length a = k -> sub (a ++ b) 0 k = a.
Proof. intros <-. apply sub_exact. Qed.

Lemma header_length m : wf_member m -> List.length (header m) = 60.
Proof.
  intros [N _ _ (_&T) (_&U) (_&G) (_&M) (_&S&_)]. unfold header.
  assert (Lnm : List.length (m_name m ++ (if m_slash m then [slash] else [])) <= 16)
    by (rewrite app_length; destruct (m_slash m); cbn [List.length]; lia).
  rewrite !app_length. rewrite !pad_length by assumption. cbn [List.length]. lia.
Qed.

Lemma trim_suffix_char_snoc c w : trim_suffix [c] (w ++ [c]) = w.
Proof.
  unfold trim_suffix, has_suffix, has_prefix. rewrite rev_app_distr. cbn [rev app List.length firstn].
  destruct (str_eqb_spec [c] [c]); [|congruence]. rewrite app_length. cbn [List.length].
  replace (List.length w + 1 - 1) with (List.length w) by lia.
  rewrite firstn_app, Nat.sub_diag, firstn_all. cbn. now rewrite app_nil_r.
Qed.

Lemma no_trail_snoc x c : is_space c = false -> no_trail (x ++ [c]).
Proof. intros H. unfold no_trail. rewrite rev_app_distr. cbn. exact H. Qed.
Lemma no_lead_app x y : x <> [] -> no_lead x -> no_lead (x ++ y).
Proof. destruct x; [congruence|]. cbn. auto. Qed.

Lemma cols (a b c d e f g : str) :
  List.length a = 16 -> List.length b = 12 -> List.length c = 6 -> List.length d = 6 ->
  List.length e = 8 -> List.length f = 10 ->
  let h := a ++ b ++ c ++ d ++ e ++ f ++ g in
  sub h 0 16 = a /\ sub h 16 12 = b /\ sub h 28 6 = c /\ sub h 34 6 = d /\ sub h 40 8 = e /\ sub h 48 10 = f /\
  nth 58 h zero = nth 0 g zero /\ nth 59 h zero = nth 1 g zero.
Proof.
  intros Ha Hb Hc Hd He Hf h. subst h.
  assert (S1 : forall (x y : str) k n, List.length x = k -> sub (x ++ y) k n = sub y 0 n).
  { intros x y k n Hk. rewrite <- (Nat.add_0_r k). now apply sub_skip'. }
  repeat split.
  - now apply sub_exact'.
  - rewrite (S1 a _ 16 12 Ha). now apply sub_exact'.
  - replace 28 with (16 + 12) by reflexivity. rewrite (sub_skip' a _ 12 6 16 Ha), (S1 b _ 12 6 Hb). now apply sub_exact'.
  - replace 34 with (16 + 18) by reflexivity. rewrite (sub_skip' a _ 18 6 16 Ha).
    replace 18 with (12 + 6) by reflexivity. rewrite (sub_skip' b _ 6 6 12 Hb), (S1 c _ 6 6 Hc). now apply sub_exact'.
  - replace 40 with (16 + 24) by reflexivity. rewrite (sub_skip' a _ 24 8 16 Ha).
    replace 24 with (12 + 12) by reflexivity. rewrite (sub_skip' b _ 12 8 12 Hb).
    replace 12 with (6 + 6) by reflexivity. rewrite (sub_skip' c _ 6 8 6 Hc), (S1 d _ 6 8 Hd). now apply sub_exact'.
  - replace 48 with (16 + 32) by reflexivity. rewrite (sub_skip' a _ 32 10 16 Ha).
    replace 32 with (12 + 20) by reflexivity. rewrite (sub_skip' b _ 20 10 12 Hb).
    replace 20 with (6 + 14) by reflexivity. rewrite (sub_skip' c _ 14 10 6 Hc).
    replace 14 with (6 + 8) by reflexivity. rewrite (sub_skip' d _ 8 10 6 Hd), (S1 e _ 8 10 He). now apply sub_exact'.
  - rewrite app_nth2 by lia. rewrite Ha. rewrite app_nth2 by lia. rewrite Hb.
    rewrite app_nth2 by lia. rewrite Hc. rewrite app_nth2 by lia. rewrite Hd.
    rewrite app_nth2 by lia. rewrite He. rewrite app_nth2 by lia. rewrite Hf. reflexivity.
  - rewrite app_nth2 by lia. rewrite Ha. rewrite app_nth2 by lia. rewrite Hb.
    rewrite app_nth2 by lia. rewrite Hc. rewrite app_nth2 by lia. rewrite Hd.
    rewrite app_nth2 by lia. rewrite He. rewrite app_nth2 by lia. rewrite Hf. reflexivity.
Qed.

Lemma parse_header off m : wf_member m -> parse_entry off (header m) = Some (entry_of off m).
Proof.
  intros W. pose proof (header_length m W) as HL.
  destruct W as [N TN NS [T TL] [U UL] [G GL] [[ML MT] MLen] (S&SL&SV)].
  unfold parse_entry. rewrite HL. cbn [Nat.eqb negb].
  set (nm := m_name m ++ (if m_slash m then [slash] else [])).
  assert (Lnm : List.length nm <= 16) by (subst nm; rewrite app_length; destruct (m_slash m); cbn [List.length]; lia).
  assert (P16 : List.length (pad 16 nm) = 16) by (now apply pad_length).
  assert (P12 : List.length (pad 12 (m_ts m)) = 12) by (now apply pad_length).
  assert (P6a : List.length (pad 6 (m_uid m)) = 6) by (now apply pad_length).
  assert (P6b : List.length (pad 6 (m_gid m)) = 6) by (now apply pad_length).
  assert (P8 : List.length (pad 8 (m_mode m)) = 8) by (now apply pad_length).
  assert (P10 : List.length (pad 10 (m_size m)) = 10) by (now apply pad_length).
  unfold header. fold nm.
  destruct (cols _ _ _ _ _ _ [bq; nl] P16 P12 P6a P6b P8 P10) as (C0&C1&C2&C3&C4&C5&C6&C7).
  rewrite C0, C1, C2, C3, C4, C5, C6, C7. cbn [nth].
  destruct (ceq_spec bq bq); [|congruence]. destruct (ceq_spec nl nl); [|congruence]. cbn [andb negb].
  rewrite !field_num_pad by assumption.
  assert (NS' : num_of (m_size m) = Z.of_nat (List.length (m_data m))) by (unfold num_of; now rewrite SV).
  rewrite NS'.
  destruct (Z.ltb_spec (Z.of_nat (List.length (m_data m))) 0); [lia|].
  rewrite (trim_space_pad 8 (m_mode m)) by (now apply trim_space_id).
  fold nm in TN.
  rewrite (trim_right_sp_pad 16 nm TN).
  assert (NM : trim_suffix [slash] nm = m_name m).
  { subst nm. destruct (m_slash m).
    - apply trim_suffix_char_snoc.
    - rewrite app_nil_r. unfold trim_suffix. now rewrite NS. }
  rewrite NM. reflexivity.
Qed.

(* ---------- iterating over the rendered archive ---------- *)
Lemma mod2_odd n : n mod 2 = if Nat.odd n then 1 else 0.
Proof.
  pose proof (Nat.bit0_mod n) as B. rewrite Nat.bit0_odd in B.
  destruct (Nat.odd n); symmetry in B; exact B.
Qed.

Lemma body_length m : List.length (body m) = List.length (m_data m) + List.length (m_data m) mod 2.
Proof. unfold body. rewrite app_length, mod2_odd. destruct (Nat.odd _); reflexivity. Qed.

Lemma ar_next_member pre m rest : wf_member m ->
  ar_next (pre ++ (header m ++ body m) ++ rest) (List.length pre) =
  NEntry (entry_of (List.length pre) m) (List.length pre + 60 + List.length (body m)).
Proof.
  intros W. pose proof (header_length m W) as HL. unfold ar_next.
  assert (S60 : sub (pre ++ (header m ++ body m) ++ rest) (List.length pre) 60 = header m).
  { rewrite <- (Nat.add_0_r (List.length pre)). rewrite sub_skip. rewrite <- !app_assoc. now apply sub_exact'. }
  rewrite S60, HL. cbn [Nat.eqb andb negb]. rewrite (parse_header _ m W). cbn [e_size entry_of].
  rewrite Nat2Z.id.
  assert (Hfit : (0 <? List.length (m_data m)) && negb (List.length pre + 60 + List.length (m_data m) - 1 <?
                   List.length (pre ++ (header m ++ body m) ++ rest)) = false).
  { destruct (Nat.ltb_spec 0 (List.length (m_data m))); cbn [andb]; [|reflexivity].
    apply negb_false_iff. apply Nat.ltb_lt. rewrite !app_length, HL, body_length. lia. }
  rewrite Hfit. rewrite body_length. f_equal. lia.
Qed.

Lemma ar_next_end pre : ar_next pre (List.length pre) = NEof.
Proof. unfold ar_next, sub. rewrite skipn_all. reflexivity. Qed.

Theorem C13_iterate : forall ms pre, Forall wf_member ms ->
  iterate (S (List.length ms)) (pre ++ render_members ms) (List.length pre) =
  Some (entries (List.length pre) ms, true).
Proof.
  induction ms as [|m ms IH]; intros pre W.
  - cbn [render_members map List.concat]. rewrite app_nil_r. rewrite iterate_S, ar_next_end. reflexivity.
  - inversion W as [|? ? Wm Wms]; subst. cbn [List.length]. rewrite iterate_S.
    cbn [render_members map List.concat]. fold (render_members ms).
    rewrite (ar_next_member pre m (render_members ms) Wm).
    specialize (IH (pre ++ header m ++ body m) Wms).
    replace (List.length (pre ++ header m ++ body m)) with (List.length pre + 60 + List.length (body m)) in IH
      by (rewrite !app_length, (header_length m Wm); lia).
    replace ((pre ++ header m ++ body m) ++ render_members ms) with (pre ++ (header m ++ body m) ++ render_members ms) in IH
      by (now rewrite <- !app_assoc).
    rewrite IH. reflexivity.
Qed.

Corollary C13_archive ms : Forall wf_member ms ->
  iterate (S (List.length ms)) (render_ar ms) 8 = Some (entries 8 ms, true).
Proof. intros W. exact (C13_iterate ms magic W). Qed.

(* each member's reader yields exactly its bytes, whatever the iterator did since *)
Theorem C13_data : forall ms pre i m, Forall wf_member ms -> nth_error ms i = Some m ->
  exists e, nth_error (entries (List.length pre) ms) i = Some e /\
            data_of (pre ++ render_members ms) e = m_data m.
Proof.
  induction ms as [|m0 ms IH]; intros pre i m W Hn; [destruct i; discriminate|].
  inversion W as [|? ? Wm Wms]; subst. destruct i as [|i].
  - inversion Hn; subst. exists (entry_of (List.length pre) m). split; [reflexivity|].
    unfold data_of. cbn [e_hdr e_size entry_of]. rewrite Nat2Z.id.
    cbn [render_members map List.concat]. unfold body.
    rewrite sub_skip' with (k := List.length pre) (a := pre) by reflexivity.
    rewrite <- !app_assoc. rewrite <- (Nat.add_0_r 60).
    rewrite (sub_skip' (header m) _ 0 _ 60 (header_length m Wm)). now apply sub_exact'.
  - cbn [nth_error] in Hn. cbn [entries nth_error].
    destruct (IH (pre ++ header m0 ++ body m0) i m Wms Hn) as (e&He&Hd).
    exists e. split.
    + replace (List.length (pre ++ header m0 ++ body m0)) with (List.length pre + 60 + List.length (body m0)) in He
        by (rewrite !app_length, (header_length m0 Wm); lia).
      exact He.
    + cbn [render_members map List.concat]. fold (render_members ms).
      rewrite <- Hd. f_equal. now rewrite <- !app_assoc.
Qed.
Print Assumptions C13_archive.
Print Assumptions C13_data.
