"""C18 - text parsers are total, deterministic and safe to call concurrently."""
import lib
import gen
import depgen
import debgen
from props.C03 import rand_triple, renderings
from props.C10 import gen_doc
from props.C17 import rand_entry, render as render_cl, with_oracle

NOISE = [bytes([c]) for c in b" \t\n\r:,|()[]<>!${}=-+~.#/0a"] + [b"\x00", b"\xff", b"\xc3\xa9", b"\n\n", b" -- ", b"  ", b"\xc2\xa0", b"\xe2\x80\x83", b"\xc2"]


def big(rng, alphabet, n):
    return b"".join(rng.choice(alphabet) for _ in range(n))


def inputs(chk):
    """(entry point op, extra leading args, text) triples: grammar seeds, their mutations, raw bytes up to 64 KiB"""
    rng = chk.rng
    out = []
    n = chk.n(250, 5000)
    seeds = {"vparse": [], "aparse": [], "alist": [], "dparse": [], "rall": [], "clparse": []}
    for _ in range(n):
        e, u, r = rand_triple(rng)
        seeds["vparse"].append(rng.choice(renderings(rng, e, u, r)))
        seeds["aparse"].append(rng.choice(depgen.ARCHN))
        seeds["alist"].append(b" ".join(rng.choice(depgen.ARCHN) for _ in range(rng.randrange(0, 5))))
        seeds["dparse"].append(depgen.render(depgen.rand_dep(rng, 4, 3, 0.6), depgen.Layout(rng, "free")))
        seeds["rall"].append(debgen.render(debgen.rand_doc(rng), rng))
    for _ in range(n // 5):
        seeds["clparse"].append(render_cl([rand_entry(rng) for _ in range(rng.randrange(1, 4))], rng, final_newline=rng.random() < 0.7))
    for op, ss in seeds.items():
        for s in ss:
            out.append((op, [], s))
            out.append((op, [], gen.mutate(rng, s, NOISE)))
        for _ in range(n // 4):
            out.append((op, [], gen.rand_bytes(rng, 40, NOISE)))
            out.append((op, [], gen.rand_bytes(rng, 30)))
        for size in ([4096, 65536] if op != "clparse" else [4096, 30000]):
            out.append((op, [], big(rng, NOISE, size)))
            out.append((op, [], (rng.choice(ss) + b"\n") * (size // (len(rng.choice(ss)) + 2) + 1) if ss else b""))
    # long runs of ONE kind of byte in front of (and instead of) a document: 4095, 4096, 4097, 8192 and 65000 blanks, newlines,
    # tabs, CRs, '#' lines, dashes, digits - sizes at and beyond every buffer a parser may peek into
    for op, ss in seeds.items():
        for n_ in (4095, 4096, 4097, 8192, 65000):
            for unit in (b"\n", b" ", b"\t", b"\r", b"\r\n", b" \n", b"#\n", b"-", b"0", b"(", b"["):
                if op in ("vparse", "aparse", "clparse") and n_ > 8192:
                    continue          # (the changelog date oracle runs the quadratic extracted model over every changelog text)
                run = (unit * (n_ // len(unit) + 1))[:n_]
                out.append((op, [], run))
                if ss and unit in (b"\n", b" ", b"\r\n", b" \n", b"\t"):
                    out.append((op, [], run + ss[0]))
    # every truncation point of a few seeds, and every short string over each grammar's special characters:
    # inputs that end right after a particular character are where index expressions go wrong
    special = {"vparse": b"0a:-~+. ", "aparse": b"a-ny l", "alist": b"a- \t\n!", "dparse": b"a ,|()[]<>!${}=:", "rall": b"A: \n\t#.\r", "clparse": b"a (1);=,\n -"}
    for op, ss in seeds.items():
        for sd in ss[:chk.n(12, 120)]:
            for k in range(len(sd) + 1):
                out.append((op, [], sd[:k]))
        alpha = [bytes([c]) for c in special[op]]
        for w in gen.words(alpha, 3 if op != "dparse" else 3):
            out.append((op, [], w))
    for kind in ("dsc", "changes", "deb_control"):
        for _ in range(n // 2):
            t, _, _ = gen_doc(rng, kind)
            out.append(("tdoc", [kind.encode()], t))
            out.append(("tdoc", [kind.encode()], gen.mutate(rng, t, NOISE)))
            # field names that differ only in case, with different values: the outcome must not depend on which
            # of them a map walk meets first
            ls = [l for l in t.split(b"\n") if l and not l.startswith((b" ", b"\t")) and b":" in l]
            if ls:
                extra = []
                for l in [ls[0]] + rng.sample(ls, min(len(ls), 2)):
                    k, v = l.split(b":", 1)
                    extra += [k.lower() + b": " + rng.choice([b"one", b"2.0-1", b"amd64"]), k.upper() + b": " + rng.choice([b"two", b"3.0-1", b"i386"])]
                out.append(("tdoc", [kind.encode()], t + b"\n".join(extra) + b"\n"))
                drop = ls[0].split(b":", 1)[0]
                out.append(("tdoc", [kind.encode()], b"\n".join(x for x in t.split(b"\n") if not x.startswith(drop + b":")) + b"\n".join(extra) + b"\n"))
        out.append(("tdoc", [kind.encode()], big(rng, NOISE, 20000)))
    for kind in ("binary_index", "source_index"):
        for _ in range(n // 3):
            t = b"\n".join(gen_doc(rng, kind)[0] for _ in range(rng.randrange(1, 4)))
            out.append(("tindex", [kind.encode()], t))
            out.append(("tindex", [kind.encode()], gen.mutate(rng, t, NOISE)))
    # every name of a Go field lying inside a struct-typed field of the document types, as an unknown field of a document
    from props import C10 as _c10
    for kind in ("dsc", "changes", "deb_control"):
        for name in _c10.NESTED.get(kind, []):
            out.append(("tdoc", [kind.encode()], gen_doc(rng, kind)[0] + name + b": " + rng.choice([b"x", b"1", b"libc6 (>= 2)"]) + b"\n"))
    for kind in ("binary_index", "source_index"):
        for name in _c10.NESTED.get(kind, []):
            out.append(("tindex", [kind.encode()], gen_doc(rng, kind)[0] + name + b": " + rng.choice([b"x", b"1", b"libc6 (>= 2)"]) + b"\n"))
    for _ in range(n // 3):
        t = gen_doc(rng, "source_par")[0] + b"\n" + gen_doc(rng, "binary_par")[0]
        out.append(("tcontrol", [], t)); out.append(("tcontrol", [], gen.mutate(rng, t, NOISE)))
    for _ in range(n):
        h = bytes(rng.choice(b"0123456789abcdef") for _ in range(rng.choice([32, 40, 64, 128])))
        line = rng.choice([h + b" 12 name", b"name " + h, h + b" x name", h, b"", h + b" 1 2 3", h + b" 99999999999999999999 n", b" " + h + b"\t5\tn "])
        out.append(("hparsed", [rng.choice([b"md5", b"sha1", b"sha256", b"sha512"])], line))
    # the same parsers entered with the CALLER's *bufio.Reader, which is used again afterwards (clbufio, rbufio)
    for op, pre, t in list(out):
        if op == "clparse" and len(t) < 6000 and rng.random() < 0.5:
            out.append(("clbufio", [], t))
        elif op == "rall" and len(t) < 6000 and rng.random() < 0.15:
            out.append(("rbufio", [], t))
    keep = []
    for op, pre, t in out:
        if True:
            if b"Filename" not in t or op not in ("tdoc", "tindex", "tcontrol"):
                keep.append((op, pre, t))
    return keep


def run(chk):
    from props import C10
    C10.load_nested(chk)
    ins = inputs(chk)
    icases, mcases = [], []
    cl_texts = [t for op, _, t in ins if op in ("clparse", "clbufio")]
    cl_m = iter(with_oracle(chk, cl_texts)[0])
    for op, pre, t in ins:
        if op == "hparsed":
            icases.append((op, pre + [t, b""])); mcases.append((op, pre + [t, b""]))
        elif op == "tdoc":
            icases.append((op, pre + [t])); mcases.append(("cunmarshal", pre + [t]))
        elif op in ("clparse", "clbufio"):
            icases.append((op, [t])); mcases.append(next(cl_m))
        elif op == "rbufio":
            icases.append((op, [t])); mcases.append(("rall", [t]))
        else:
            icases.append((op, pre + [t])); mcases.append((op, pre + [t]))
    impl = chk.run_impl(icases, timeout=1800)
    # the extracted models use the standard library's quadratic List.rev / append: inputs above 6000 bytes are run
    # through the implementation only (normal return, value xor error, determinism), not compared with the model
    small = [k for k, c in enumerate(mcases) if sum(len(a) for a in c[1] if isinstance(a, bytes)) <= 3000]
    msmall = chk.run_model([mcases[k] for k in small], timeout=1800)
    model = list(impl)
    for k, r in zip(small, msmall):
        model[k] = r
    chk.extra["compared_with_model"] = len(small)
    chk.extra["implementation_only_large_inputs"] = len(mcases) - len(small)
    proj = lambda r: r.split(" ")[0] + " " + " ".join(r.split(" ")[1:5]) if r.startswith("( ") else r
    chk.compare("entry-points-vs-models", mcases, impl, model, project=lambda r: r.rsplit(" ", 1)[0] if r.startswith("( ") and r.split(" ")[-1] in ("accept", "reject", "error") else r, spec=False)
    per = {}
    for c, i in zip(icases, impl):
        per.setdefault(c[0], {"cases": 0, "ok": 0, "max_len": 0})
        per[c[0]]["cases"] += 1; per[c[0]]["ok"] += i.startswith("ok") or i.startswith("x") or i.startswith("("); per[c[0]]["max_len"] = max(per[c[0]]["max_len"], len(c[1][-1] if c[0] != "hparsed" else c[1][1]))
        why = None
        if i in ("panic", "timeout") or i.startswith("runner-died"):
            why = "the parser did not return normally (%s)" % i
        elif i in ("err-with-value", "ok-nil"):
            why = "the parser returned both a usable value and an error (or neither)"
        if why:
            chk.violate({"kind": "property", "case": lib.show_case((c[0], [a[:2000] if isinstance(a, bytes) else a for a in c[1]])), "impl": i[:200], "explanation": why})
    chk.extra["entry_points"] = per
    # the typed-document decoder with nil in the place of its target (nil, a nil *T - for every document type), a slice of
    # non-structs, a slice of pointers: it returns normally - an error, or (for []*T) the decoded elements - never a panic;
    # and a target struct with private fields named like fields of the document
    from props.C09 import PROBES
    nc = [("cdecodenil", [t.encode(), b"Package: x\nVersion: 1.0\nSource: s\n\nPackage: y\nSource: t\n"]) for t in list(PROBES) + ["dsc", "changes", "binary_index", "source_index"]]
    for c, r in zip(nc, chk.run_impl(nc)):
        head, _, tail = r.partition(" | ")
        if head != "err err err err err err" or not (tail.startswith("err") or tail.startswith("ok ")) or "nil-element" in tail:
            chk.violate({"kind": "property", "case": lib.show_case(c), "impl": r[:200],
                         "explanation": "decoding into nil, a nil pointer, a slice of non-structs or a slice of pointers panicked or did not answer with an error / the decoded elements"})
    pc = [("cprivate", [b"Package: a\nseen: yes\ncount: 3\nnote: n\ntags: t\n"])]
    for c, r in zip(pc, chk.run_impl(pc)):
        if "panic" in r:
            chk.violate({"kind": "property", "case": lib.show_case(c), "impl": r[:200],
                         "explanation": "a document with fields named like private fields of the target struct made the decoder panic"})
    # repeated and concurrent calls under the race detector
    race = lib.build_race_harness()
    sub = [c for k, c in enumerate(icases) if k % (3 if chk.tier == "quick" else 1) == 0 and len(c[1][-1]) < 2500]
    want = {lib.enc_case(c): r for c, r in zip(icases, impl)}
    lines, stderr, rc = lib.run_concurrent(race, sub, timeout=3000)
    chk.extra["concurrent"] = {"cases": len(sub), "goroutines": 16, "sequential_repeats": 3, "race_detector": True, "exit": rc}
    if "DATA RACE" in stderr:
        chk.violate({"kind": "property", "case": {"op": "concurrent", "args": [], "hexargs": []}, "stderr": stderr[:3000],
                     "explanation": "the race detector reported a data race while the parsers ran concurrently on independent inputs"})
    elif rc != 0 or len(lines) != len(sub):
        chk.violate({"kind": "property", "case": {"op": "concurrent", "args": [], "hexargs": []}, "stderr": stderr[-2000:], "exit": rc,
                     "explanation": "the concurrent run did not complete normally"})
    else:
        for c, l in zip(sub, lines):
            w = want[lib.enc_case(c)]
            if l != w + " SAME":
                chk.violate({"kind": "property", "case": lib.show_case((c[0], [a[:2000] if isinstance(a, bytes) else a for a in c[1]])), "sequential": w[:300], "concurrent": l[:600],
                             "explanation": "repeated or concurrent calls on the same input gave different results"})
    chk.record("concurrent-and-repeated", sub, lines if len(lines) == len(sub) else [""] * len(sub), lambda c, r: True)
    chk.trusted.append("the Go race detector (go build -race) and the scheduler as exercised by 16 goroutines: supporting evidence, not a proof")
    chk.assumptions += ["freedom from data races is a runtime property the model cannot exhibit: it is observed, not proved",
                        "inputs up to 64 KiB; Unicode whitespace handled exactly by the executed models (V11, R2u)"]


def replay(chk, d):
    c = lib.case_from_replay(d)
    print("impl:", chk.run_impl([c])[0][:800])
    return 0
