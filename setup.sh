#!/bin/sh
# Builds the framework from files on disk only (offline): the Coq development (full .vo
# build, from clean), the extracted OCaml model runner and the Go harness.
set -e
cd "$(dirname "$0")"
export GOFLAGS=-mod=mod GOPROXY=off GOSUMDB=off GOTOOLCHAIN=local
rm -rf build
mkdir -p build evidence replays
rm -f coq/Makefile coq/Makefile.conf coq/.Makefile.d
find coq \( -name '*.vo' -o -name '*.vok' -o -name '*.vos' -o -name '*.glob' -o -name '.*.aux' \) -print | xargs rm -f
python3 - <<'PY'
import sys
sys.path.insert(0, "driver")
import lib
lib.build_harness()
lib.regen_schema()
lib.regen_consts()
rc, out = lib.coq_make()
open("build/coq-build.log", "w").write(out)
if rc != 0:
    # a keep-going build: the checks hold a file that does not compile against the properties that rest on it (and say so);
    # setup fails only when the model runner itself cannot be built
    print(out[-4000:])
    print("setup: the Coq development does not build completely: " + ", ".join(sorted(lib.failed_modules(out))))
lib.build_model()
print("setup ok")
PY
