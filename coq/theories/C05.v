(* C05 - Rendering a parsed dependency and re-parsing it loses nothing.
   Property theorems only.  Model: D3.parse (dependency/parser.go, transliterated function by function
   with explicit fuel 4*len+8), D3.dep_string (string.go), A1.parse_arch / A1.arch_string (arch.go). *)
From Coq Require Import List Ascii String ZArith NArith Lia Bool Arith.
Require A1.
Require Import D3 D4 D5 D6 D7 D8.
Import ListNotations.

(* for every byte string the parser accepts, the rendering is accepted and parses to the same value -
   unless the value contains the architecture spelled "--", i.e. the triple ("","","") (known finding) *)
Theorem C05_dep_roundtrip : forall x d, parse x = Ok d -> blank_arch d = false -> parse (dep_string d) = Ok d.
Proof. exact D8.C05_dep_roundtrip. Qed.
Print Assumptions C05_dep_roundtrip.

Theorem C05_fixpoint : forall x d, parse x = Ok d -> blank_arch d = false ->
  forall d2, parse (dep_string d) = Ok d2 -> dep_string d2 = dep_string d.
Proof. exact D8.C05_fixpoint. Qed.
Print Assumptions C05_fixpoint.

(* the fuel never runs out: OutOfFuel is not an outcome of parse *)
Theorem C05_parse_total : forall x, parse x <> OutOfFuel.
Proof. exact C18_dep_terminates. Qed.
Print Assumptions C05_parse_total.

(* a single architecture name: parse, render, parse gives back the same (abi, os, cpu) *)
Theorem C05_arch_roundtrip : forall x, ~ A1.zero_arch (A1.parse_arch x) ->
  A1.parse_arch (A1.arch_string (A1.parse_arch x)) = A1.parse_arch x.
Proof. exact A1.arch_roundtrip. Qed.
Print Assumptions C05_arch_roundtrip.

(* the excluded class is a real exception (KNOWN-FINDING class blank-arch) *)
Theorem C05_blank_arch_refuted : A1.parse_arch (A1.arch_string (A1.parse_arch (A1.s "--"))) <> A1.parse_arch (A1.s "--").
Proof. exact A1.blank_arch_refuted. Qed.

Example C05_wildcards_kept :
  A1.arch_string (A1.parse_arch (A1.s "linux-any")) = A1.s "linux-any" /\
  A1.arch_string (A1.parse_arch (A1.s "any-amd64")) = A1.s "any-amd64" /\
  A1.arch_string (A1.parse_arch (A1.s "musl-linux-amd64")) = A1.s "musl-linux-amd64" /\
  ~ A1.zero_arch (A1.parse_arch (A1.s "linux-any")).
Proof. repeat split; try reflexivity. intros (H&_). discriminate H. Qed.
Example C05_nonvacuous : exists d, parse (s "foo:any (>= 1.0) [!amd64 !i386] <!a b> <c> | ${x:Y}, bar") = Ok d /\ blank_arch d = false.
Proof. eexists. split; vm_compute; reflexivity. Qed.
