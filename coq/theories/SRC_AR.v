(* The dispatch tables of the hand-written models ARE the tables of today's source text.
   coq/gen/Consts_gen.v is written on every run by driver/srcconsts.py, which reads them out of /repo's .go files.  Each
   lemma states that a model constant equals what was read; an edit of one of those tables in the source breaks the lemma -
   a proof obligation - before a single case has been run.  One file per model (SRC_D3, SRC_AR, SRC_DATE, SRC_D16, SRC_U20):
   a broken lemma is held against the properties whose theorems rest on that model (driver/lib.py: the Require closure of the
   property file), not against the others. *)
From Coq Require Import List Ascii String Bool Arith NArith Lia.
Require Import GS AR Consts_gen.
Import ListNotations.

(* deb/ar.go: (from, to) of every column of the 60-byte member header - the (offset, width) pairs of AR.parse_entry and of
   the renderer AR2.header - and the two magic bytes at 58 and 59 *)
Lemma src_ar_header :
  map (fun p => (fst p, snd p - fst p)%N) Consts_gen.ar_columns = [(0, 16); (16, 12); (28, 6); (34, 6); (40, 8); (48, 10)]%N /\
  Consts_gen.ar_magic = [(58%N, N_of_ascii AR.bq); (59%N, N_of_ascii nl)] /\
  Consts_gen.ar_header_len = [60%N].
Proof. repeat split. Qed.

