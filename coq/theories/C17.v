(* C17 - Changelog parsing returns every entry faithfully, or an error.
   Property theorems only.  Model: CL.parse_one / CL.parse = changelog.ParseOne / Parse on the lines of the
   input (GS.lines_of: the last line may lack its newline).  The theorems of the section are generic in
   parse_version and parse_date; below the section they are instantiated with the C03 model of version.Parse and
   with DATE.parse_when, the model of time.Parse with the library's trailer layout (until round 12 the date was
   an oracle answered by the real time.Parse; now the tie compares time.Parse with the model). *)
From Coq Require Import List Ascii String Bool Arith Lia.
Require Import GS R2 CL CL2 CL3 HIST.
Require LR.
Import ListNotations.

Section C17.
  Variables V T : Type.
  Variable parse_version : str -> option V.
  Variable parse_date : str -> option T.

  (* a changelog made of entries "source (version) dists; k=v, k=v" / body lines that are empty or start with
     a blank / " -- who  date", any number of empty lines before each entry and k empty lines at the end:
     one entry per block, in order, with source, version (oracle value), distribution list, option pairs,
     verbatim body, maintainer and date (oracle value) *)
  Theorem C17_parse_render : forall es k, Forall (rentry_ok V T parse_version parse_date) es ->
    Forall (free nl) (doc V T es k) ->
    CL.parse V T parse_version parse_date (unlines (doc V T es k)) = Some (map (entry_val V T) es).
  Proof. exact (C17_parse_text V T parse_version parse_date). Qed.

  (* the same changelog without its final newline: the last trailer line ends the text *)
  Theorem C17_parse_render_no_final_newline : forall es, es <> [] -> Forall (rentry_ok V T parse_version parse_date) es ->
    Forall (free nl) (doc V T es 0) ->
    CL.parse V T parse_version parse_date (join [nl] (doc V T es 0)) = Some (map (entry_val V T) es).
  Proof. exact (C17_parse_text_open V T parse_version parse_date). Qed.

  (* never a silently shortened list, for ANY input: when Parse succeeds, every header line of the input
     (a line that does not start with a blank and is not blank) has produced an entry - so an input that ends
     inside an entry, or has a malformed header, trailer or date, gives either all entries or an error *)
  Theorem C17_never_silently_shortened : forall fuel ls es,
    CL.parse_fuel V T parse_version parse_date fuel ls = Some es ->
    (CL.headers ls <= List.length es)%nat.
  Proof. exact (CL.C17_never_shortened V T parse_version parse_date). Qed.

  (* None means an error, never fuel exhaustion: more fuel than lines changes nothing *)
  Theorem C17_fuel_suffices : forall fuel ls, (List.length ls < fuel)%nat ->
    forall fuel', (fuel <= fuel')%nat ->
    CL.parse_fuel V T parse_version parse_date fuel' ls = CL.parse_fuel V T parse_version parse_date fuel ls.
  Proof. exact (CL.C17_fuel V T parse_version parse_date). Qed.

  (* the other entry points: ParseOne returns the first entry that Parse returns and leaves the rest to it; an
     error of ParseOne on the whole text is an error of Parse *)
  Theorem C17_parse_one_is_the_first_entry : forall x e es, CL.parse V T parse_version parse_date x = Some (e :: es) ->
    exists rest, CL.parse_one V T parse_version parse_date (lines_of x) = @CL.ROk _ e rest /\
                 CL.parse_fuel V T parse_version parse_date (List.length (lines_of x)) rest = Some es.
  Proof. exact (HIST.C17_parse_one_is_first_entry V T parse_version parse_date). Qed.

  (* the source: whatever chunks the io.Reader underneath delivers (one byte per Read, data together with EOF, a buffer
     fill that ends right after a trailer line ...), the incremental line reader feeds the parser the lines of the
     whole text - so every statement above holds for every source, and no chunking shortens the list *)
  Theorem C17_any_source : forall chunks,
    LR.changelog_chunked V T parse_version parse_date chunks = CL.parse V T parse_version parse_date (List.concat chunks).
  Proof. exact (LR.changelog_any_source V T parse_version parse_date). Qed.
End C17.
Print Assumptions C17_parse_render.
Print Assumptions C17_parse_render_no_final_newline.
Print Assumptions C17_never_silently_shortened.
Print Assumptions C17_fuel_suffices.
Print Assumptions C17_any_source.

Require CL2ex.
Example C17_instance :
  CL.parse str str CL2ex.pv CL2ex.pv (unlines (doc str str [CL2ex.e1; CL2ex.e1] 2)) =
  Some [entry_val str str CL2ex.e1; entry_val str str CL2ex.e1].
Proof. exact CL2ex.C17_nonvacuous. Qed.

(* ---- the date is no longer an oracle ---- *)
Require DATE DATEp V11.
(* every well-formed trailer date - weekday, a day of the month written with one or two digits, month, four-digit year,
   time, numeric zone - is read to exactly its instant (Unix seconds) and its zone offset *)
Theorem C17_trailer_date : forall f, DATEp.wf_date f ->
  DATE.parse_when (DATEp.render_when f) = Some (DATEp.unix_of f, DATEp.offset_of f).
Proof. exact DATEp.parse_when_render. Qed.
Print Assumptions C17_trailer_date.
(* ... and a date whose day does not exist in its month ("00", "31 Apr", "29 Feb 2023", "32") is refused: with
   C17_never_silently_shortened the whole changelog then is an error, not a shortened list *)
Theorem C17_trailer_date_no_such_day : forall f, DATEp.wf_shape f -> DATEp.day_exists f = false ->
  DATE.parse_when (DATEp.render_when f) = None.
Proof. exact DATEp.parse_when_no_such_day. Qed.
(* the changelog theorem with the library's own version and date readers in the place of the two parameters *)
Theorem C17_parse_render_dated : forall es k,
  Forall (rentry_ok V3.version (BinNums.Z * BinNums.Z) V11.parse_u DATE.parse_when) es ->
  Forall (free nl) (doc V3.version (BinNums.Z * BinNums.Z) es k) ->
  CL.parse V3.version (BinNums.Z * BinNums.Z) V11.parse_u DATE.parse_when (unlines (doc V3.version (BinNums.Z * BinNums.Z) es k)) =
  Some (map (entry_val V3.version (BinNums.Z * BinNums.Z)) es).
Proof. exact (C17_parse_render V3.version (BinNums.Z * BinNums.Z) V11.parse_u DATE.parse_when). Qed.
Theorem C17_never_silently_shortened_dated : forall fuel ls es,
  CL.parse_fuel V3.version (BinNums.Z * BinNums.Z) V11.parse_u DATE.parse_when fuel ls = Some es ->
  (CL.headers ls <= List.length es)%nat.
Proof. exact (C17_never_silently_shortened V3.version (BinNums.Z * BinNums.Z) V11.parse_u DATE.parse_when). Qed.
Print Assumptions C17_parse_render_dated.

(* entries may be separated by lines of white space - a blank, a tab, or the CR of a file with CR LF line ends (repair 1f7ffc5 of
   the r13 finding: only lines that are exactly empty were skipped in front of a header, so a two-entry changelog with CR LF
   line ends was refused): such a changelog parses to its two entries *)
From Coq Require Import ZArith.
Example C17_crlf_changelog_of_two_entries :
  let cr := "013"%char in
  let e (src ver : string) := s src ++ s " (" ++ s ver ++ s ") unstable; urgency=low" ++ [cr; nl; cr; nl] ++ s "  * x" ++ [cr; nl; cr; nl] ++
                              s " -- A B <a@b.c>  Mon, 2 Jan 2006 15:04:05 -0700" ++ [cr; nl] in
  match CL.parse V3.version (BinNums.Z * BinNums.Z) V11.parse_u DATE.parse_when (e "a"%string "1.0-1"%string ++ [cr; nl] ++ [sp; nl] ++ ["009"%char; nl] ++ e "b"%string "2:0.5"%string) with
  | Some [x; y] => CL.e_source _ _ x = s "a" /\ CL.e_source _ _ y = s "b" /\ CL.e_when _ _ y = (1136239445, -25200)%Z
  | _ => False
  end.
Proof. vm_compute. repeat split. Qed.
