#!/bin/sh
# Builds the framework from files on disk only (offline): the Coq development (full .vo
# build, from clean), the extracted OCaml model runner and the Go harness.
set -e
cd "$(dirname "$0")"
export GOFLAGS=-mod=mod GOPROXY=off GOSUMDB=off GOTOOLCHAIN=local
rm -rf build
mkdir -p build evidence replays
cd coq
rm -f Makefile Makefile.conf .Makefile.d
find theories -name '*.vo' -o -name '*.vok' -o -name '*.vos' -o -name '*.glob' -o -name '.*.aux' | xargs rm -f
coq_makefile -f _CoqProject -o Makefile
timeout 3000 make -j16 > ../build/coq-build.log 2>&1 || { tail -40 ../build/coq-build.log; exit 1; }
cd ..
python3 - <<'PY'
import sys
sys.path.insert(0, "driver")
import lib
lib.build_model()
lib.build_harness()
print("setup ok")
PY
