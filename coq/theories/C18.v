(* C18 - Text parsers are total, deterministic and safe to call concurrently.
   Property theorems only.  Every parser model is a Gallina function, hence total and deterministic by
   construction, returning a value or an error (an [option] / [outcome]) - never both.  What needs a proof is that
   the explicit fuel of the looping parsers always suffices, so that "out of fuel" is not an outcome: every
   loop consumes input.  Freedom from data races and independence from the scheduler are runtime facts of the Go
   code that a model cannot exhibit; they are observed by the tie (race detector, concurrent vs sequential
   results) and this property is claimed as partial for that reason. *)
From Coq Require Import List Ascii String Bool Arith NArith ZArith Lia.
Require Import GS R2 R7 D3 D5 CL AR TS TS2 V3 V11.
Import ListNotations.

(* dependency fields: the model allots 4*len+8 iterations; it never runs out *)
Theorem C18_dependency_parser_total : forall x, D3.parse x <> D3.OutOfFuel.
Proof. exact C18_dep_terminates. Qed.
Print Assumptions C18_dependency_parser_total.

(* control paragraphs: with more fuel than lines the answer no longer changes *)
Theorem C18_paragraph_reader_total : forall fuel ls, List.length ls < fuel ->
  forall fuel', fuel <= fuel' -> R2.all_fuel fuel' ls = R2.all_fuel fuel ls.
Proof. exact C18_all_fuel. Qed.
Print Assumptions C18_paragraph_reader_total.

(* changelogs, for any version and date oracle *)
Theorem C18_changelog_parser_total : forall (V T : Type) pv pd fuel ls, (List.length ls < fuel)%nat ->
  forall fuel', (fuel <= fuel')%nat -> CL.parse_fuel V T pv pd fuel' ls = CL.parse_fuel V T pv pd fuel ls.
Proof. exact CL.C17_fuel. Qed.

(* ar archives: fuel len/60 + 1 suffices from any offset *)
Theorem C18_ar_reader_total : forall n buf off, List.length buf + 1 - off <= 60 * n -> AR.iterate (S n) buf off <> None.
Proof. exact AR.C15_terminates. Qed.

(* build ordering *)
Theorem C18_ordering_total : forall srcs, TS2.order_dscs srcs <> TS.SFuel.
Proof. exact TS2.C19_terminates. Qed.

(* version strings: a value or an error, and on success a well-formed value *)
Theorem C18_version_value_or_error : forall x, V11.parse_u x = None \/ exists v, V11.parse_u x = Some v /\ V3.wf_v v.
Proof. intros x. destruct (V11.parse_u x) as [v|] eqn:E; [right; exists v; split; [reflexivity|exact (V11.parse_u_wf x v E)]|now left]. Qed.
Print Assumptions C18_changelog_parser_total.
Print Assumptions C18_ar_reader_total.
Print Assumptions C18_version_value_or_error.
