(* The dispatch tables of the hand-written models ARE the tables of today's source text.
   coq/gen/Consts_gen.v is written on every run by driver/srcconsts.py, which reads them out of /repo's .go files.  Each
   lemma states that a model constant equals what was read; an edit of one of those tables in the source breaks the lemma -
   a proof obligation - before a single case has been run.  One file per model (SRC_D3, SRC_AR, SRC_DATE, SRC_D16, SRC_U20):
   a broken lemma is held against the properties whose theorems rest on that model (driver/lib.py: the Require closure of the
   property file), not against the others. *)
From Coq Require Import List Ascii String Bool Arith NArith Lia.
Require Import GS D3 D4 Consts_gen.
Import ListNotations.

Definition mem_code (tab : list N) (c : ascii) : bool := existsb (N.eqb (N_of_ascii c)) tab.

(* dependency/parser.go *)
Lemma src_blank : forall c, mem_code Consts_gen.blank c = D3.is_ws c.
Proof. intros c. apply (proj1 (Bool.eqb_true_iff _ _)). exact (D4.by_enum (fun c => Bool.eqb (mem_code Consts_gen.blank c) (D3.is_ws c)) eq_refl c). Qed.
Lemma src_possibility_dispatch :
  nth 0 Consts_gen.possi_cases [] = [58%N] /\
  (forall c, mem_code (nth 1 Consts_gen.possi_cases []) c = (D3.is_ws c || D3.eqc c 40 || D3.eqc c 91 || D3.eqc c 60)) /\
  (forall c, mem_code (nth 2 Consts_gen.possi_cases []) c = (D3.eqc c 44 || D3.eqc c 124 || D3.eqc c 0)) /\
  List.length Consts_gen.possi_cases = 3%nat.
Proof.
  split; [reflexivity|]. split; [|split; [|reflexivity]]; intros c.
  - apply (proj1 (Bool.eqb_true_iff _ _)). exact (D4.by_enum (fun c => Bool.eqb (mem_code (nth 1 Consts_gen.possi_cases []) c) (D3.is_ws c || D3.eqc c 40 || D3.eqc c 91 || D3.eqc c 60)) eq_refl c).
  - apply (proj1 (Bool.eqb_true_iff _ _)). exact (D4.by_enum (fun c => Bool.eqb (mem_code (nth 2 Consts_gen.possi_cases []) c) (D3.eqc c 44 || D3.eqc c 124 || D3.eqc c 0)) eq_refl c).
Qed.
Lemma src_multiarch_stop : forall c, mem_code Consts_gen.multiarch_stop c = D3.multiarch_stop c.
Proof. intros c. apply (proj1 (Bool.eqb_true_iff _ _)). exact (D4.by_enum (fun c => Bool.eqb (mem_code Consts_gen.multiarch_stop c) (D3.multiarch_stop c)) eq_refl c). Qed.
Lemma src_controllers_dispatch : Consts_gen.controllers_cases = [[44; 124; 0]; [40]; [91]; [60]]%N.
Proof. reflexivity. Qed.

(* the four clause loops (version number, architecture name, profile name, substvar name): the case lists of the source,
   in the source's order - the byte that is the end of the input, [the negation mark,] the bytes that end the clause with
   an ERROR (D3.bad_in_*: a separator or a further opening character - be576a6), the bytes that close it.  The first and
   the error list together are the model's bad_in predicate, byte for byte. *)
Definition refused (cases : list (list N)) (k : nat) (c : ascii) : bool := mem_code (nth 0 cases [] ++ nth k cases []) c.
Lemma src_number_loop : (forall c, refused Consts_gen.number_cases 2 c = D3.bad_in_number c) /\ (nth 1 Consts_gen.number_cases [] = [41%N]) /\ (List.length Consts_gen.number_cases = 3%nat).
Proof.
  split; [|split; reflexivity]. intros c. apply (proj1 (Bool.eqb_true_iff _ _)).
  exact (D4.by_enum (fun c => Bool.eqb (refused Consts_gen.number_cases 2 c) (D3.bad_in_number c)) eq_refl c).
Qed.
Lemma src_arch_loop : (forall c, refused Consts_gen.arch_cases 2 c = D3.bad_in_arch c) /\ (nth 1 Consts_gen.arch_cases [] = [33%N]) /\ (forall c, mem_code (nth 3 Consts_gen.arch_cases []) c = (D3.eqc c 93 || D3.is_ws c)) /\ (List.length Consts_gen.arch_cases = 4%nat).
Proof.
  split; [|split; [reflexivity|split; [|reflexivity]]]; intros c; apply (proj1 (Bool.eqb_true_iff _ _)).
  - exact (D4.by_enum (fun c => Bool.eqb (refused Consts_gen.arch_cases 2 c) (D3.bad_in_arch c)) eq_refl c).
  - exact (D4.by_enum (fun c => Bool.eqb (mem_code (nth 3 Consts_gen.arch_cases []) c) (D3.eqc c 93 || D3.is_ws c)) eq_refl c).
Qed.
Lemma src_stage_loop : (forall c, refused Consts_gen.stage_cases 2 c = D3.bad_in_stage c) /\ (nth 1 Consts_gen.stage_cases [] = [33%N]) /\ (forall c, mem_code (nth 3 Consts_gen.stage_cases []) c = (D3.eqc c 62 || D3.is_ws c)) /\ (List.length Consts_gen.stage_cases = 4%nat).
Proof.
  split; [|split; [reflexivity|split; [|reflexivity]]]; intros c; apply (proj1 (Bool.eqb_true_iff _ _)).
  - exact (D4.by_enum (fun c => Bool.eqb (refused Consts_gen.stage_cases 2 c) (D3.bad_in_stage c)) eq_refl c).
  - exact (D4.by_enum (fun c => Bool.eqb (mem_code (nth 3 Consts_gen.stage_cases []) c) (D3.eqc c 62 || D3.is_ws c)) eq_refl c).
Qed.
Lemma src_substvar_loop : (forall c, refused Consts_gen.substvar_cases 1 c = D3.bad_in_substvar c) /\ (nth 2 Consts_gen.substvar_cases [] = [125%N]) /\ (forall c, mem_code (nth 3 Consts_gen.substvar_cases []) c = D4.stop3 c) /\ (List.length Consts_gen.substvar_cases = 4%nat).
Proof.
  split; [|split; [reflexivity|split; [|reflexivity]]]; intros c; apply (proj1 (Bool.eqb_true_iff _ _)).
  - exact (D4.by_enum (fun c => Bool.eqb (refused Consts_gen.substvar_cases 1 c) (D3.bad_in_substvar c)) eq_refl c).
  - exact (D4.by_enum (fun c => Bool.eqb (mem_code (nth 3 Consts_gen.substvar_cases []) c) (D4.stop3 c)) eq_refl c).
Qed.

