(* version.Parse with Go's exact whitespace handling: strings.TrimSpace and
   strings.IndexFunc(.., unicode.IsSpace) decode UTF-8, so the one-byte spaces of V3 are joined by
   U+0085, U+00A0, U+1680, U+2000..U+200A, U+2028, U+2029, U+202F, U+205F and U+3000.
   A byte that is not a UTF-8 continuation byte always starts a rune in Go's decoder, and every
   space encoding starts with such a byte, so "the rune at a rune boundary is a space" is the same
   as "a space encoding starts here"; the model is written in that form (the tie exercises it on
   valid and invalid UTF-8). *)
From Coq Require Import List Ascii String Bool Arith NArith ZArith Lia.
Require Import GS V3 V4 V9.
Import ListNotations.

Definition sp2 (c d : ascii) : bool := (code c =? 194) && ((code d =? 133) || (code d =? 160)).
Definition sp3 (c d e : ascii) : bool :=
  ((code c =? 225) && (code d =? 154) && (code e =? 128)) ||
  ((code c =? 226) && (code d =? 128) &&
     (((128 <=? code e) && (code e <=? 138)) || (code e =? 168) || (code e =? 169) || (code e =? 175))) ||
  ((code c =? 226) && (code d =? 129) && (code e =? 159)) ||
  ((code c =? 227) && (code d =? 128) && (code e =? 128)).

(* strings.TrimLeftFunc(x, unicode.IsSpace) *)
Fixpoint trim_left_u (x : str) : str :=
  match x with
  | [] => []
  | c :: r =>
      if is_space c then trim_left_u r
      else match r with
           | d :: r1 =>
               if sp2 c d then trim_left_u r1
               else match r1 with
                    | e :: r2 => if sp3 c d e then trim_left_u r2 else x
                    | [] => x
                    end
           | [] => x
           end
  end.
(* the same on the reversed string: utf8.DecodeLastRuneInString finds a space exactly when the text
   ends with a space encoding *)
Fixpoint trim_left_r (x : str) : str :=
  match x with
  | [] => []
  | c :: r =>
      if is_space c then trim_left_r r
      else match r with
           | d :: r1 =>
               if sp2 d c then trim_left_r r1
               else match r1 with
                    | e :: r2 => if sp3 e d c then trim_left_r r2 else x
                    | [] => x
                    end
           | [] => x
           end
  end.
Definition trim_space_u (x : str) : str := rev (trim_left_r (rev (trim_left_u x))).

(* strings.IndexFunc(x, unicode.IsSpace) != -1 *)
Definition space_here (x : str) : bool :=
  match x with
  | [] => false
  | c :: r => is_space c ||
      match r with
      | d :: r1 => sp2 c d || match r1 with e :: _ => sp3 c d e | [] => false end
      | [] => false
      end
  end.
Fixpoint has_space_u (x : str) : bool :=
  match x with [] => false | c :: r => space_here x || has_space_u r end.

Definition parse_u (input : str) : option version :=
  let t := trim_space_u input in
  if str_eqb t [] then None
  else if has_space_u t then None
  else parse_core t.

(* ================= proofs ================= *)

Lemma has_space_u_nosp t : has_space_u t = false -> forallb nosp t = true.
Proof.
  induction t as [|c r IH]; [reflexivity|]. cbn [has_space_u forallb]. intros H.
  apply orb_false_iff in H as [H1 H2]. rewrite (IH H2), andb_true_r.
  unfold space_here in H1. apply orb_false_iff in H1 as [H1 _]. unfold nosp. now rewrite H1.
Qed.

Lemma parse_is_core t : t <> [] -> forallb nosp t = true -> parse t = parse_core t.
Proof.
  intros Hne Hn. pose proof (parse_wrapped [] t [] (Forall_nil _) (Forall_nil _) Hne Hn) as P.
  cbn [app] in P. now rewrite app_nil_r in P.
Qed.

Definition asc (c : ascii) : bool := code c <? 128.
Definition plain (c : ascii) : bool := nosp c && asc c.

Lemma asc_sp2 c d : asc c = true -> sp2 c d = false.
Proof. unfold asc, sp2. intros H. apply Nat.ltb_lt in H. destruct (Nat.eqb_spec (code c) 194); [lia|reflexivity]. Qed.
Lemma asc_sp3 c d e : asc c = true -> sp3 c d e = false.
Proof.
  unfold asc, sp3. intros H. apply Nat.ltb_lt in H.
  destruct (Nat.eqb_spec (code c) 225); [lia|]. destruct (Nat.eqb_spec (code c) 226); [lia|].
  destruct (Nat.eqb_spec (code c) 227); [lia|]. reflexivity.
Qed.
Lemma asc_sp2_r c d : asc c = true -> sp2 d c = false.
Proof.
  unfold asc, sp2. intros H. apply Nat.ltb_lt in H.
  destruct (Nat.eqb_spec (code c) 133); [lia|]. destruct (Nat.eqb_spec (code c) 160); [lia|]. cbn. apply andb_false_r.
Qed.
Lemma asc_sp3_r c d e : asc c = true -> sp3 e d c = false.
Proof.
  unfold asc, sp3. intros H. apply Nat.ltb_lt in H.
  destruct (Nat.eqb_spec (code c) 128); [lia|]. destruct (Nat.eqb_spec (code c) 159); [lia|].
  destruct (Nat.eqb_spec (code c) 168); [lia|]. destruct (Nat.eqb_spec (code c) 169); [lia|].
  destruct (Nat.eqb_spec (code c) 175); [lia|]. destruct (Nat.leb_spec 128 (code c)); [lia|].
  cbn. rewrite !andb_false_r. reflexivity.
Qed.

Lemma plain_split c : plain c = true -> is_space c = false /\ asc c = true.
Proof. unfold plain, nosp. intros H. apply andb_true_iff in H as [H1 H2]. apply negb_true_iff in H1. auto. Qed.

Lemma plain_no_space x : forallb plain x = true -> has_space_u x = false.
Proof.
  induction x as [|c r IH]; [reflexivity|]. cbn [forallb has_space_u]. intros H. apply andb_true_iff in H as [Hc Hr].
  rewrite (IH Hr), orb_false_r. destruct (plain_split c Hc) as [S A]. unfold space_here. rewrite S. cbn [orb].
  destruct r as [|d r1]; [reflexivity|]. rewrite (asc_sp2 c d A). cbn [orb].
  destruct r1 as [|e r2]; [reflexivity|]. apply asc_sp3. exact A.
Qed.

Lemma trim_left_u_head c r : is_space c = false -> asc c = true -> trim_left_u (c :: r) = c :: r.
Proof.
  intros S A. cbn [trim_left_u]. rewrite S. destruct r as [|d r1]; [reflexivity|]. rewrite (asc_sp2 c d A).
  destruct r1 as [|e r2]; [reflexivity|]. now rewrite (asc_sp3 c d e A).
Qed.
Lemma trim_left_r_head c r : is_space c = false -> asc c = true -> trim_left_r (c :: r) = c :: r.
Proof.
  intros S A. cbn [trim_left_r]. rewrite S. destruct r as [|d r1]; [reflexivity|]. rewrite (asc_sp2_r c d A).
  destruct r1 as [|e r2]; [reflexivity|]. now rewrite (asc_sp3_r c d e A).
Qed.

Lemma plain_trim x : forallb plain x = true -> trim_space_u x = x.
Proof.
  intros H. unfold trim_space_u.
  assert (L : trim_left_u x = x).
  { destruct x as [|c r]; [reflexivity|]. cbn in H. apply andb_true_iff in H as [Hc _].
    destruct (plain_split c Hc). now apply trim_left_u_head. }
  rewrite L. assert (R : forallb plain (rev x) = true) by (rewrite forallb_forall in *; intros c Hc; apply H; now apply in_rev).
  assert (T : trim_left_r (rev x) = rev x).
  { destruct (rev x) as [|c r]; [reflexivity|]. cbn in R. apply andb_true_iff in R as [Hc _].
    destruct (plain_split c Hc). now apply trim_left_r_head. }
  rewrite T. apply rev_involutive.
Qed.

(* on plain ASCII text without blanks the two parsers coincide *)
Lemma parse_u_plain x : x <> [] -> forallb plain x = true -> parse_u x = parse_core x.
Proof.
  intros Hne H. unfold parse_u. rewrite (plain_trim x H), (plain_no_space x H).
  destruct (str_eqb_spec x []); [contradiction|reflexivity].
Qed.

(* every class the rendering uses is ASCII *)
Lemma digit_asc : forall c, (negb (is_digit c) || asc c) = true.
Proof. apply by_enum. vm_compute. reflexivity. Qed.
Lemma ok_up_asc : forall c, (negb (ok_up c) || asc c) = true.
Proof. apply by_enum. vm_compute. reflexivity. Qed.
Lemma ok_rev_asc : forall c, (negb (ok_rev c) || asc c) = true.
Proof. apply by_enum. vm_compute. reflexivity. Qed.
Lemma class_asc (P : ascii -> bool) x : (forall c, (negb (P c) || asc c) = true) -> forallb P x = true -> forallb asc x = true.
Proof. intros F H. eapply forallb_impl; [|exact H]. intros c Pc. specialize (F c). now rewrite Pc in F. Qed.

Lemma to_string_asc v : wf_v v -> forallb asc (to_string v) = true.
Proof.
  intros [He (c0&r0&Hup&Hd0) Hu Hr].
  assert (W : forallb asc (without_epoch v) = true).
  { unfold without_epoch. rewrite forallb_app. apply andb_true_iff. split; [apply (class_asc ok_up); [apply ok_up_asc|exact Hu]|].
    destruct (_ || _); [|reflexivity]. cbn [forallb]. apply andb_true_iff. split; [reflexivity|].
    apply (class_asc ok_rev); [apply ok_rev_asc|exact Hr]. }
  unfold to_string. destruct (_ || _); [|exact W].
  rewrite forallb_app. apply andb_true_iff. split; [apply (class_asc is_digit); [apply digit_asc|apply itoa_digits]|].
  cbn [forallb]. now rewrite W.
Qed.

Lemma forallb_and (P Q : ascii -> bool) x : forallb P x = true -> forallb Q x = true -> forallb (fun c => P c && Q c) x = true.
Proof. intros HP HQ. rewrite forallb_forall in *. intros c Hc. now rewrite (HP c Hc), (HQ c Hc). Qed.

Lemma to_string_plain v : wf_v v -> to_string v <> [] /\ forallb plain (to_string v) = true.
Proof.
  intros W. destruct (to_string_nosp v W) as [Hne Hn]. split; [exact Hne|].
  apply (forallb_and nosp asc); [exact Hn|now apply to_string_asc].
Qed.

Lemma plain_nosp x : forallb plain x = true -> forallb nosp x = true.
Proof. apply forallb_impl. intros c H. unfold plain in H. now apply andb_true_iff in H as [H _]. Qed.

(* whatever Parse accepts is well formed *)
Lemma parse_u_wf x v : parse_u x = Some v -> wf_v v.
Proof.
  unfold parse_u. set (t := trim_space_u x). destruct (str_eqb_spec t []) as [|Hne]; [discriminate|].
  destruct (has_space_u t) eqn:Hs; [discriminate|]. intros H.
  apply (parse_wf t). rewrite (parse_is_core t Hne (has_space_u_nosp t Hs)). exact H.
Qed.

Theorem roundtrip_wf_u v : wf_v v -> parse_u (to_string v) = Some v.
Proof.
  intros W. destruct (to_string_plain v W) as [Hne Hp]. rewrite (parse_u_plain _ Hne Hp).
  rewrite <- (parse_is_core _ Hne (plain_nosp _ Hp)). now apply roundtrip_wf.
Qed.

(* C03, third part, for the exact model: every accepted string round-trips *)
Theorem C03u_roundtrip x v : parse_u x = Some v -> parse_u (to_string v) = Some v.
Proof. intros H. apply roundtrip_wf_u. eapply parse_u_wf; eauto. Qed.

(* ---- surrounding Unicode whitespace ---- *)
Inductive space_enc : str -> Prop :=
| se1 c : is_space c = true -> space_enc [c]
| se2 c d : sp2 c d = true -> space_enc [c; d]
| se3 c d e : sp3 c d e = true -> space_enc [c; d; e].

Lemma sp2_lead c d : sp2 c d = true -> is_space c = false /\ is_space d = false.
Proof.
  unfold sp2, is_space. intros H. apply andb_true_iff in H as [H1 H2]. apply Nat.eqb_eq in H1. rewrite H1.
  apply orb_true_iff in H2 as [H2|H2]; apply Nat.eqb_eq in H2; rewrite H2; split; reflexivity.
Qed.
Lemma sp3_lead c d e : sp3 c d e = true -> is_space c = false /\ sp2 c d = false /\ is_space e = false /\ sp2 d e = false.
Proof.
  unfold sp3, sp2, is_space. intros H.
  repeat (apply orb_true_iff in H as [H|H]); repeat (apply andb_true_iff in H as [H ?]);
  repeat match goal with E : (_ =? _) = true |- _ => apply Nat.eqb_eq in E; rewrite E end; try (repeat split; reflexivity).
  - repeat split; try reflexivity. match goal with E : _ || _ = true |- _ => rename E into K end.
    repeat (apply orb_true_iff in K as [K|K]); try (apply Nat.eqb_eq in K; rewrite K; reflexivity).
    apply andb_true_iff in K as [K1 K2]. apply Nat.leb_le in K1. apply Nat.leb_le in K2.
    destruct (Nat.eqb_spec (code e) 9); [lia|]. destruct (Nat.eqb_spec (code e) 10); [lia|].
    destruct (Nat.eqb_spec (code e) 11); [lia|]. destruct (Nat.eqb_spec (code e) 12); [lia|].
    destruct (Nat.eqb_spec (code e) 13); [lia|]. destruct (Nat.eqb_spec (code e) 32); [lia|]. reflexivity.
Qed.

Lemma trim_left_u_enc e x : space_enc e -> trim_left_u (e ++ x) = trim_left_u x.
Proof.
  intros [c H|c d H|c d e' H]; cbn [app trim_left_u].
  - now rewrite H.
  - destruct (sp2_lead c d H) as [S _]. now rewrite S, H.
  - destruct (sp3_lead c d e' H) as (S&S2&_). now rewrite S, S2, H.
Qed.
Lemma trim_left_r_enc e x : space_enc e -> trim_left_r (rev e ++ x) = trim_left_r x.
Proof.
  intros [c H|c d H|c d e' H]; cbn [rev app trim_left_r].
  - now rewrite H.
  - destruct (sp2_lead c d H) as [_ S]. now rewrite S, H.
  - destruct (sp3_lead c d e' H) as (_&_&S&S2). now rewrite S, S2, H.
Qed.

Lemma trim_left_u_encs es x : Forall space_enc es -> trim_left_u (List.concat es ++ x) = trim_left_u x.
Proof.
  induction 1 as [|e es He _ IH]; [reflexivity|]. cbn [List.concat]. rewrite <- app_assoc, trim_left_u_enc by exact He. exact IH.
Qed.
Lemma trim_left_r_encs es x : Forall space_enc es -> trim_left_r (rev (List.concat es) ++ x) = trim_left_r x.
Proof.
  intros H. revert x. induction H as [|e es He _ IH]; intros x; [reflexivity|]. cbn [List.concat].
  rewrite rev_app_distr, <- app_assoc, IH. now apply trim_left_r_enc.
Qed.

(* a text that starts and ends with a plain ASCII character and contains no space is what is left
   after trimming any Unicode whitespace around it *)
Definition ends_plain (t : str) : Prop :=
  (exists c r, t = c :: r /\ plain c = true) /\ (exists c r, rev t = c :: r /\ plain c = true).

Lemma trim_u_wrap es1 t es2 : Forall space_enc es1 -> Forall space_enc es2 -> ends_plain t ->
  trim_space_u (List.concat es1 ++ t ++ List.concat es2) = t.
Proof.
  intros H1 H2 [(c&r&Et&Pc) (c'&r'&Er&Pc')]. unfold trim_space_u. rewrite trim_left_u_encs by exact H1.
  destruct (plain_split c Pc) as [S A]. destruct (plain_split c' Pc') as [S' A'].
  rewrite Et. cbn [app]. rewrite trim_left_u_head by assumption.
  change (c :: r ++ List.concat es2) with ((c :: r) ++ List.concat es2). rewrite <- Et.
  rewrite rev_app_distr, trim_left_r_encs by exact H2. rewrite Er, trim_left_r_head by assumption.
  rewrite <- Er. apply rev_involutive.
Qed.

Lemma parse_u_wrapped es1 t es2 : Forall space_enc es1 -> Forall space_enc es2 -> ends_plain t ->
  has_space_u t = false -> parse_u (List.concat es1 ++ t ++ List.concat es2) = parse_core t.
Proof.
  intros H1 H2 He Hs. unfold parse_u. rewrite (trim_u_wrap es1 t es2 H1 H2 He), Hs.
  destruct He as [(c&r&Et&_) _]. destruct (str_eqb_spec t []); [congruence|reflexivity].
Qed.

Lemma plain_ends t : t <> [] -> forallb plain t = true -> ends_plain t.
Proof.
  intros Hne H. split.
  - destruct t as [|c r]; [congruence|]. cbn in H. apply andb_true_iff in H as [Hc _]. eauto.
  - assert (R : forallb plain (rev t) = true) by (rewrite forallb_forall in *; intros c Hc; apply H; now apply in_rev).
    assert (Rne : rev t <> []) by (intros E; apply Hne; now rewrite <- (rev_involutive t), E).
    destruct (rev t) as [|c r]; [congruence|]. cbn in R. apply andb_true_iff in R as [Hc _]. eauto.
Qed.

(* C03, first part, exact model: any Unicode whitespace around the canonical rendering *)
Theorem C03u_parse_grammar v es1 es2 : wf_v v -> Forall space_enc es1 -> Forall space_enc es2 ->
  parse_u (List.concat es1 ++ to_string v ++ List.concat es2) = Some v.
Proof.
  intros W H1 H2. destruct (to_string_plain v W) as [Hne Hp].
  rewrite (parse_u_wrapped es1 _ es2 H1 H2 (plain_ends _ Hne Hp) (plain_no_space _ Hp)).
  rewrite <- (parse_is_core _ Hne (plain_nosp _ Hp)). now apply roundtrip_wf.
Qed.

(* rejections lift: a wrapped text is rejected exactly when its core is *)
Theorem C03u_reject es1 t es2 : Forall space_enc es1 -> Forall space_enc es2 -> ends_plain t ->
  has_space_u t = false -> parse t = None -> parse_u (List.concat es1 ++ t ++ List.concat es2) = None.
Proof.
  intros H1 H2 He Hs P. rewrite (parse_u_wrapped es1 t es2 H1 H2 He Hs).
  destruct He as [(c&r&Et&_) _]. rewrite <- (parse_is_core t); [exact P|congruence|now apply has_space_u_nosp].
Qed.
(* an embedded space of any kind is rejected *)
Theorem C03u_reject_embedded x : has_space_u (trim_space_u x) = true -> parse_u x = None.
Proof. intros H. unfold parse_u. rewrite H. now destruct (str_eqb (trim_space_u x) []). Qed.
Theorem C03u_reject_blank es : Forall space_enc es -> parse_u (List.concat es) = None.
Proof.
  intros H. unfold parse_u, trim_space_u. pose proof (trim_left_u_encs es [] H) as E. rewrite app_nil_r in E. rewrite E. reflexivity.
Qed.
Print Assumptions C03u_roundtrip.
Print Assumptions C03u_parse_grammar.
