(* a concrete field meeting every hypothesis of C04_field_free *)
From Coq Require Import List Ascii String Bool Arith NArith Lia.
Require Import A1 D3 D4 D5 D6 D14 D9 D10 D12 D13.
Import ListNotations.

Definition amd64 : arch := parse_arch (s "amd64").
Definition v1 : vrel := {| v_num := s "1.0-1~rc1"; v_op := s ">=" |}.
Definition st1 : list stage := [ {| s_not := true; s_name := s "nocheck" |}; {| s_not := false; s_name := s "cross" |} ].
Definition aset : archset := {| a_not := true; a_list := [amd64] |}.
Definition sp2 : str := [ch 32; ch 9].
(* "libfoo:any < \t!nocheck \tcross> \t( >=1.0-1~rc1 \t)  [ !amd64 \t]" : profile group first, then version, then architectures *)
Definition cl1 : list (str * clause) := [([ch 32], CStages sp2 [({| s_not := true; s_name := s "nocheck" |}, sp2); ({| s_not := false; s_name := s "cross" |}, [])]); (sp2, CVer [ch 32] [] sp2 v1); (sp2, CArchs true [ch 32] [(amd64, sp2)])].
Definition any_arch : arch := parse_arch (s "any").

Lemma wfv1 : wf_ver v1.
Proof. constructor; [right; left; reflexivity|reflexivity|reflexivity|reflexivity]. Qed.
Lemma wfst : Forall wf_stage st1.
Proof. repeat constructor; cbn; discriminate. Qed.
Lemma wfa : Forall (wf_archent true) [amd64].
Proof. constructor; [|constructor]. constructor; [reflexivity|discriminate|reflexivity|reflexivity]. Qed.
Lemma ws1 : all_ws [ch 32]. Proof. repeat constructor. Qed.
Lemma ws2 : all_ws sp2. Proof. repeat constructor. Qed.

Lemma cl1_ok : clauses_ok (base (s "libfoo") (Some any_arch)) cl1.
Proof.
  constructor; [apply ws1|split; [discriminate|split; [apply wfst|split; [split; [apply ws2|split; [discriminate|constructor]]|apply ws2]]]|].
  constructor; [apply ws2|split; [apply ws1|split; [constructor|split; [apply ws2|split; [apply wfv1|split; [split; [discriminate|reflexivity]|reflexivity]]]]]|].
  constructor; [apply ws2|split; [discriminate|split; [apply wfa|split; [apply ws2|split; [apply ws1|reflexivity]]]]|].
  constructor.
Qed.

Definition t1 : str := s "libfoo" ++ qual_text (Some any_arch) ++ clauses_text cl1.
Definition p1 : possi := result (s "libfoo") (Some any_arch) cl1.
Lemma alt1 : alt_ok2 t1 p1.
Proof. apply alt_free2; [discriminate|reflexivity|reflexivity|repeat split; reflexivity|apply cl1_ok]. Qed.

Definition psub : possi := {| p_name := s "misc:Depends"; p_arch := None; p_archs := None; p_stages := []; p_ver := None; p_subst := true |}.
Lemma alt2 : alt_ok2 (possi_string psub) psub.
Proof. apply alt_subst2. constructor; [reflexivity|reflexivity|repeat split]. Qed.

Definition t3 : str := s "bar".
Definition p3 : possi := result (s "bar") None [].
Lemma alt3 : alt_ok2 (s "bar" ++ qual_text None ++ clauses_text []) p3.
Proof. apply alt_free2; [discriminate|reflexivity|reflexivity|exact I|constructor]. Qed.

(* "  libfoo:any < \t!nocheck \tcross> \t( >=1.0-1~rc1 \t) \t[ !amd64 \t] \t| \t${misc:Depends} , \tbar " *)
Definition r0 : lrel2 := (t1, p1, [(sp2, sp2, possi_string psub, psub)], [ch 32]).
Definition r1 : lrel2 := (s "bar" ++ qual_text None ++ clauses_text [], p3, [], [ch 32]).
Example C04_nonvacuous :
  parse (sp2 ++ lrel2_text r0 ++ tail2_text [(sp2, r1)]) = Ok [[p1; psub]; [p3]].
Proof.
  apply (C04_field_free sp2 r0 [(sp2, r1)]).
  - apply ws2.
  - split; [apply alt1|split; [|apply ws1]]. constructor; [|constructor]. split; [apply ws2|split; [apply ws2|apply alt2]].
  - constructor; [|constructor]. split; [apply ws2|]. split; [apply alt3|split; [constructor|apply ws1]].
Qed.
(* and the clause values are the ones written, whatever their order in the text *)
Example C04_nonvacuous_value :
  p_ver p1 = Some v1 /\ p_archs p1 = Some aset /\ p_stages p1 = [st1] /\ p_arch p1 = Some any_arch /\ p_name p1 = s "libfoo".
Proof. repeat split. Qed.
