(* C07: whole paragraphs and whole documents under layout freedom *)
From Coq Require Import List Ascii String Bool Arith Lia.
Require Import GS R2 R3 R5.
Import ListNotations.

(* one field as it may be laid out in a file *)
Record lfield := { lk : str; lw0 : str; lw1 : str; ll0 : str; lw2 : str; lits : list item }.
Definition lfield_ok (f : lfield) : Prop :=
  key_ok (lk f) /\ pad_ok (lw0 f) /\ all_space (lw1 f) /\ all_space (lw2 f) /\
  no_lead (ll0 f) /\ no_trail (ll0 f) /\ Forall item_ok (lits f).
Definition flines (f : lfield) : list str :=
  (lk f ++ lw0 f ++ [colon] ++ lw1 f ++ ll0 f ++ lw2 f) :: map item_line (lits f).
Definition fval (f : lfield) : str * str := (lk f, read_conts (ll0 f) (conts (lits f))).
Definition plines (fs : list lfield) : list str := List.concat (map flines fs).
Definition last_key (d : str) (fs : list lfield) : str := List.last (map lk fs) d.

Lemma mem_app_false k vs ws : mem k (vs ++ ws) = mem k vs || mem k ws.
Proof. induction vs as [|[k' v] vs IH]; [reflexivity|]. cbn [app mem]. destruct (str_eqb k' k); [reflexivity|exact IH]. Qed.

Lemma last_default {A} (x : A) l d d' : List.last (x :: l) d = List.last (x :: l) d'.
Proof. revert x; induction l as [|y l IH]; intros x; [reflexivity|]. cbn [List.last] in *. apply IH. Qed.

Lemma next_fields : forall fs p last rest, Forall lfield_ok fs -> NoDup (map lk fs) ->
  (forall f, In f fs -> mem (lk f) (values p) = false) ->
  next p last (plines fs ++ rest) =
  next {| order := order p ++ map lk fs; values := values p ++ map fval fs |} (last_key last fs) rest.
Proof.
  induction fs as [|f fs IH]; intros p last rest W ND Hm.
  - unfold plines, last_key. cbn [map List.concat app List.last]. rewrite !app_nil_r. destruct p; reflexivity.
  - inversion W as [|? ? Wf Wfs]; subst. inversion ND as [|? ? Hnotin ND']; subst.
    destruct Wf as (Hk&P0&P1&P2&Hl&Ht&Wi).
    unfold plines. cbn [map List.concat]. unfold flines at 1. rewrite <- app_assoc, <- app_comm_cons.
    assert (Hmf : mem (lk f) (values p) = false) by (apply Hm; now left).
    etransitivity; [exact (C07_field p last (lk f) (lw0 f) (lw1 f) (ll0 f) (lw2 f) (lits f) (List.concat (map flines fs) ++ rest)
                 Hk Hmf P0 P1 P2 Hl Ht Wi)|].
    fold (plines fs).
    rewrite (IH _ (lk f) rest Wfs ND').
    + cbn [order values map]. rewrite <- !app_assoc. cbn [app].
      unfold last_key. cbn [map]. destruct (map lk fs) as [|s l] eqn:M; [reflexivity|].
      unfold fval at 1. rewrite (last_default s l (lk f) last). reflexivity.
    + intros g Hg. cbn [values]. rewrite mem_app_other.
      * apply Hm. now right.
      * intros E. apply Hnotin. rewrite <- E. now apply in_map.
Qed.

(* lines the reader skips while it has no field yet *)
Definition skip_ok (l : str) : Prop :=
  is_blank_line l = true \/ starts hash l = true \/
  ((starts sp l || starts tab l) = true /\ trim_space l = []).

Lemma next_skip l rest : skip_ok l -> next empty_para [] (l :: rest) = next empty_para [] rest.
Proof.
  intros H. cbn [next order empty_para]. destruct (is_blank_line l) eqn:B; [reflexivity|].
  destruct (starts hash l) eqn:Hh; [reflexivity|]. destruct H as [H|[H|[H1 H2]]]; try congruence.
  rewrite H1, H2. reflexivity.
Qed.
Lemma next_skips : forall sk rest, Forall skip_ok sk -> next empty_para [] (sk ++ rest) = next empty_para [] rest.
Proof.
  induction sk as [|l sk IH]; intros rest W; [reflexivity|]. inversion W; subst. cbn [app]. rewrite next_skip by assumption. now apply IH.
Qed.

Lemma next_blank p last b rest : is_blank_line b = true -> order p <> [] -> next p last (b :: rest) = RPara p rest.
Proof. intros B Ho. cbn [next]. rewrite B. destruct (order p); [congruence|reflexivity]. Qed.
Lemma next_eof p last : order p <> [] -> next p last [] = RPara p [].
Proof. intros Ho. cbn [next]. destruct (order p); [congruence|reflexivity]. Qed.

Definition fields_ok (fs : list lfield) : Prop := fs <> [] /\ Forall lfield_ok fs /\ NoDup (map lk fs).
Definition pval (fs : list lfield) : para := {| order := map lk fs; values := map fval fs |}.

(* one paragraph: skipped lines, fields, then a blank line or the end of input *)
Theorem C07_para_blank sk fs b rest : Forall skip_ok sk -> fields_ok fs -> is_blank_line b = true ->
  next empty_para [] (sk ++ plines fs ++ b :: rest) = RPara (pval fs) rest.
Proof.
  intros Ws (NE&W&ND) B. rewrite next_skips by exact Ws.
  rewrite (next_fields fs empty_para [] (b :: rest) W ND) by reflexivity.
  cbn [order values empty_para app]. apply next_blank; [exact B|]. cbn [order]. destruct fs; [congruence|discriminate].
Qed.
Theorem C07_para_eof sk fs : Forall skip_ok sk -> fields_ok fs ->
  next empty_para [] (sk ++ plines fs) = RPara (pval fs) [].
Proof.
  intros Ws (NE&W&ND). rewrite next_skips by exact Ws.
  rewrite <- (app_nil_r (plines fs)).
  rewrite (next_fields fs empty_para [] [] W ND) by reflexivity.
  cbn [order values empty_para app]. apply next_eof. cbn [order]. destruct fs; [congruence|discriminate].
Qed.
Theorem C07_only_skips sk : Forall skip_ok sk -> next empty_para [] sk = REOF.
Proof. intros Ws. rewrite <- (app_nil_r sk). rewrite next_skips by exact Ws. reflexivity. Qed.

(* ---- documents ---- *)
Definition lpara : Type := list str * list lfield * str.   (* skipped lines, fields, terminating blank line *)
Definition lpara_ok (q : lpara) : Prop :=
  let '(sk, fs, b) := q in Forall skip_ok sk /\ fields_ok fs /\ is_blank_line b = true.
Definition lpara_val (q : lpara) : para := let '(_, fs, _) := q in pval fs.
Fixpoint doc_lines (d : list lpara) (fin : list str) : list str :=
  match d with
  | [] => fin
  | (sk, fs, b) :: r => sk ++ plines fs ++ b :: doc_lines r fin
  end.

Lemma all_fuel_S f ls : all_fuel (S f) ls =
  match next empty_para [] ls with
  | REOF => Some []
  | RErr => None
  | RPara p rest => option_map (cons p) (all_fuel f rest)
  end.
Proof. reflexivity. Qed.

Lemma doc_generic : forall d fin fuel X, Forall lpara_ok d -> all_fuel fuel fin = Some X ->
  all_fuel (List.length d + fuel) (doc_lines d fin) = Some (map lpara_val d ++ X).
Proof.
  induction d as [|[[sk fs] b] d IH]; intros fin fuel X W HX; [exact HX|].
  inversion W as [|? ? Wq Wd]; subst. unfold lpara_ok in Wq. destruct Wq as (Ws&Wf&Wb).
  cbn [List.length plus doc_lines map app]. rewrite all_fuel_S.
  rewrite (C07_para_blank sk fs b (doc_lines d fin) Ws Wf Wb).
  rewrite (IH fin fuel X Wd HX). reflexivity.
Qed.

Lemma all_fuel_mono : forall f ls X, all_fuel f ls = Some X -> forall f', f <= f' -> all_fuel f' ls = Some X.
Proof.
  induction f as [|f IH]; intros ls X H f' Hle; [discriminate|]. destruct f' as [|f']; [lia|].
  rewrite all_fuel_S in *. destruct (next empty_para [] ls) as [p rest| | ]; try assumption.
  destruct (all_fuel f rest) as [Y|] eqn:E; [|discriminate]. rewrite (IH rest Y E f') by lia. exact H.
Qed.

(* every paragraph terminated by a blank line, then only skippable lines (or nothing) *)
Theorem C07_doc d fin fuel : Forall lpara_ok d -> Forall skip_ok fin -> List.length d < fuel ->
  all_fuel fuel (doc_lines d fin) = Some (map lpara_val d).
Proof.
  intros W Wf Hf. rewrite <- (app_nil_r (map lpara_val d)).
  apply (all_fuel_mono (List.length d + 1)); [|lia].
  apply doc_generic; [exact W|]. rewrite all_fuel_S, (C07_only_skips fin Wf). reflexivity.
Qed.

(* the last paragraph runs to the end of the input *)
Theorem C07_doc_open d sk fs fuel : Forall lpara_ok d -> Forall skip_ok sk -> fields_ok fs -> List.length d + 1 < fuel ->
  all_fuel fuel (doc_lines d (sk ++ plines fs)) = Some (map lpara_val d ++ [pval fs]).
Proof.
  intros W Ws Wf Hf. apply (all_fuel_mono (List.length d + 2)); [|lia].
  apply doc_generic; [exact W|]. rewrite all_fuel_S, (C07_para_eof sk fs Ws Wf).
  rewrite all_fuel_S. reflexivity.
Qed.
Print Assumptions C07_doc.
Print Assumptions C07_doc_open.

(* ================= text level ================= *)
Lemma lines_of_join_open ls a : a <> [] -> Forall (free nl) (ls ++ [a]) -> lines_of (join [nl] (ls ++ [a])) = ls ++ [a].
Proof.
  intros Ha F.
  assert (NE : ls ++ [a] <> []) by (destruct ls; discriminate).
  assert (S1 : split nl (join [nl] (ls ++ [a])) = ls ++ [a]) by (apply split_join; assumption).
  rewrite lines_of_nonempty.
  - rewrite S1, rev_app_distr. cbn [rev app]. destruct a; [congruence|reflexivity].
  - intros E. rewrite E in S1. cbn in S1. destruct ls as [|x [|y r]]; cbn in S1; inversion S1; subst; congruence.
Qed.

Lemma doc_len : forall d fin, List.length d + List.length fin <= List.length (doc_lines d fin).
Proof.
  induction d as [|[[sk fs] b] d IH]; intros fin; cbn [doc_lines List.length]; [lia|].
  rewrite !app_length. cbn [List.length]. specialize (IH fin). lia.
Qed.

Theorem C07_read_text d fin : Forall lpara_ok d -> Forall skip_ok fin -> Forall (free nl) (doc_lines d fin) ->
  read_all (unlines (doc_lines d fin)) = Some (map lpara_val d).
Proof.
  intros W Wf F. unfold read_all. rewrite (lines_of_unlines _ F).
  apply C07_doc; try assumption. pose proof (doc_len d fin). lia.
Qed.

Lemma last_app_ne {A} (l1 l2 : list A) d : l2 <> [] -> List.last (l1 ++ l2) d = List.last l2 d.
Proof.
  intros NE. induction l1 as [|x l1 IH]; [reflexivity|]. cbn [app].
  destruct (l1 ++ l2) as [|y m] eqn:E; [apply app_eq_nil in E; destruct E; congruence|].
  change (List.last (x :: y :: m) d) with (List.last (y :: m) d). exact IH.
Qed.

Lemma item_line_ne it : item_line it <> [].
Proof. destruct it; discriminate. Qed.
Lemma flines_last_ne f : key_ok (lk f) -> List.last (flines f) [] <> [].
Proof.
  intros Hk. unfold flines. destruct (lits f) as [|it its] eqn:E using rev_ind.
  - cbn [map List.last]. destruct Hk as [Hne _ _ _ _ _]. destruct (lk f); [congruence|discriminate].
  - rewrite map_app. cbn [map]. rewrite app_comm_cons, last_app_ne by discriminate. cbn [List.last]. apply item_line_ne.
Qed.
Lemma flines_ne f : flines f <> [].
Proof. discriminate. Qed.
Lemma plines_last_ne fs : fields_ok fs -> List.last (plines fs) [] <> [] /\ plines fs <> [].
Proof.
  intros (NE&W&_). destruct (exists_last NE) as (fs'&f&->). apply Forall_app in W. destruct W as [_ Wf].
  inversion Wf as [|? ? (Hk&_) _]; subst. unfold plines. rewrite map_app, concat_app. cbn [map List.concat]. rewrite app_nil_r.
  split.
  - rewrite last_app_ne by apply flines_ne. now apply flines_last_ne.
  - intros E. apply app_eq_nil in E. destruct E as [_ E]. now apply flines_ne in E.
Qed.

Lemma doc_lines_app : forall d fin, exists pre, doc_lines d fin = pre ++ fin.
Proof.
  induction d as [|[[sk fs] b] d IH]; intros fin; [now exists []|]. destruct (IH fin) as (pre&E).
  exists (sk ++ plines fs ++ b :: pre). cbn [doc_lines]. rewrite E. now rewrite <- !app_assoc.
Qed.

(* no final newline: the last paragraph's last line ends the text *)
Theorem C07_read_text_open d sk fs : Forall lpara_ok d -> Forall skip_ok sk -> fields_ok fs ->
  Forall (free nl) (doc_lines d (sk ++ plines fs)) ->
  read_all (join [nl] (doc_lines d (sk ++ plines fs))) = Some (map lpara_val d ++ [pval fs]).
Proof.
  intros W Ws Wf F. destruct (plines_last_ne fs Wf) as [L NE].
  destruct (doc_lines_app d (sk ++ plines fs)) as (pre&E).
  destruct (exists_last NE) as (body&a&Ea).
  assert (Ha : a <> []). { rewrite Ea, last_app_ne in L by discriminate. exact L. }
  assert (E2 : doc_lines d (sk ++ plines fs) = (pre ++ sk ++ body) ++ [a]).
  { rewrite E, Ea. now rewrite <- !app_assoc. }
  unfold read_all. rewrite E2 in F |- *. pose proof (lines_of_join_open _ a Ha F) as LJ.
  repeat match goal with |- context [lines_of ?t] => replace (lines_of t) with ((pre ++ sk ++ body) ++ [a]) by (symmetry; exact LJ) end. rewrite <- E2.
  apply C07_doc_open; try assumption.
  pose proof (doc_len d (sk ++ plines fs)). rewrite app_length in H.
  assert (1 <= List.length (plines fs)) by (destruct (plines fs); [congruence|cbn; lia]). lia.
Qed.
Print Assumptions C07_read_text.
Print Assumptions C07_read_text_open.
