(* Extraction of the executable models and specs.  Directives in use: those of
   ExtrOcamlBasic and ExtrOcamlString (which loads ExtrOcamlChar); nothing else.
   N, Z, positive and nat stay extracted inductives. *)
From Coq Require Import ExtrOcamlBasic ExtrOcamlString.
Require Import Run.
Separate Extraction Run.run.
