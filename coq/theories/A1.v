From Coq Require Import List Ascii String Bool Arith Lia.
Import ListNotations.

Definition str := list ascii.
Definition s (x : string) : str := list_ascii_of_string x.
Definition dash : ascii := "-"%char.
Definition str_eqb (a b : str) : bool := if list_eq_dec ascii_dec a b then true else false.
Lemma str_eqb_spec a b : reflect (a = b) (str_eqb a b).
Proof. unfold str_eqb. destruct (list_eq_dec ascii_dec a b); constructor; auto. Qed.
Definition is_dash (c : ascii) : bool := if ascii_dec c dash then true else false.
Definition nodash (x : str) : Prop := Forall (fun c => c <> dash) x.

(* strings.SplitN(x, "-", n), n >= 1 *)
Fixpoint split_dash (n : nat) (cur : str) (x : str) : list str :=
  match x with
  | [] => [rev cur]
  | c :: r => match n with
              | S (S k) => if is_dash c then rev cur :: split_dash (S k) [] r else split_dash n (c :: cur) r
              | _ => [rev cur ++ x]
              end
  end.

Record arch := { abi : str; os : str; cpu : str }.
Definition any := s "any". Definition all := s "all". Definition gnu := s "gnu". Definition linux := s "linux".
Definition mk a o c := {| abi := a; os := o; cpu := c |}.

(* arch.go after the repair: every branch sets all three fields *)
Definition parse_arch (x : str) : arch :=
  match split_dash 3 [] x with
  | [f] => if str_eqb f all || str_eqb f any then mk f f f else mk gnu linux f
  | [o; c] => mk (if str_eqb o any || str_eqb c any then any else gnu) o c
  | [a; o; c] => mk a o c
  | _ => mk any any any
  end.

Definition has_dash (x : str) : bool := existsb is_dash x.
Definition join3 a o c := a ++ dash :: o ++ dash :: c.
Definition join2 o c := o ++ dash :: c.

(* string.go after the repair *)
Definition arch_string (a : arch) : str :=
  if str_eqb (abi a) [] && str_eqb (os a) [] && str_eqb (cpu a) [] then []
  else
    let short := negb (has_dash (cpu a)) in
    if str_eqb (abi a) (os a) && str_eqb (os a) (cpu a) && (str_eqb (cpu a) any || str_eqb (cpu a) all) then cpu a
    else if short && str_eqb (abi a) gnu && str_eqb (os a) linux && negb (str_eqb (cpu a) any) && negb (str_eqb (cpu a) all) && negb (str_eqb (cpu a) []) then cpu a
    else if (short && str_eqb (abi a) gnu && negb (str_eqb (os a) any) && negb (str_eqb (cpu a) any))
         || (short && str_eqb (abi a) any && (str_eqb (os a) any || str_eqb (cpu a) any))
      then join2 (os a) (cpu a)
    else join3 (abi a) (os a) (cpu a).

(* ---------- split_dash facts ---------- *)
Lemma is_dash_true c : is_dash c = true <-> c = dash.
Proof. unfold is_dash. destruct (ascii_dec c dash); split; congruence. Qed.
Lemma is_dash_false c : is_dash c = false <-> c <> dash.
Proof. unfold is_dash. destruct (ascii_dec c dash); split; congruence. Qed.

Lemma has_dash_false x : has_dash x = false <-> nodash x.
Proof.
  unfold has_dash, nodash. induction x as [|c r IH]; cbn.
  - split; auto.
  - rewrite orb_false_iff, IH, is_dash_false. split.
    + intros [? ?]. constructor; auto.
    + intros H. inversion H; auto.
Qed.

(* a word without dash is consumed into cur *)
Lemma split_nodash : forall w n cur rest, nodash w ->
  split_dash (S (S n)) cur (w ++ rest) = split_dash (S (S n)) (rev w ++ cur) rest.
Proof.
  induction w as [|c w IH]; intros n cur rest H; [reflexivity|].
  inversion H as [|? ? Hc Hw]; subst. cbn [app split_dash].
  apply is_dash_false in Hc. rewrite Hc, IH by assumption. cbn [rev]. now rewrite <- app_assoc.
Qed.

Lemma split1 x : nodash x -> split_dash 3 [] x = [x].
Proof.
  intros H. rewrite <- (app_nil_r x) at 1. rewrite (split_nodash x 1 [] [] H).
  cbn. now rewrite app_nil_r, rev_involutive.
Qed.

Lemma split2 o c : nodash o -> nodash c -> split_dash 3 [] (join2 o c) = [o; c].
Proof.
  intros Ho Hc. unfold join2. rewrite (split_nodash o 1 [] _ Ho). cbn [split_dash].
  replace (is_dash dash) with true by (symmetry; now apply is_dash_true).
  rewrite app_nil_r, rev_involutive. f_equal.
  rewrite <- (app_nil_r c) at 1. rewrite (split_nodash c 0 [] [] Hc). cbn. now rewrite app_nil_r, rev_involutive.
Qed.

Lemma split_last cur x : split_dash 1 cur x = [rev cur ++ x].
Proof. destruct x; cbn; [now rewrite app_nil_r|reflexivity]. Qed.

Lemma split3 a o c : nodash a -> nodash o -> split_dash 3 [] (join3 a o c) = [a; o; c].
Proof.
  intros Ha Ho. unfold join3. rewrite (split_nodash a 1 [] _ Ha). cbn [split_dash].
  replace (is_dash dash) with true by (symmetry; now apply is_dash_true).
  rewrite app_nil_r, rev_involutive. f_equal.
  rewrite (split_nodash o 0 [] _ Ho). cbn [split_dash].
  replace (is_dash dash) with true by (symmetry; now apply is_dash_true).
  rewrite app_nil_r, rev_involutive. f_equal. apply split_last.
Qed.

(* shape of any split: the pieces before the last are dash-free, and the
   last one is dash-free unless the limit was reached *)
Lemma split_shape : forall x n cur, nodash cur ->
  match split_dash (S n) cur x with
  | [] => False
  | l => Forall nodash (removelast l) /\ (List.length l <= S n)%nat /\
         ((List.length l < S n)%nat -> nodash (last l []))
  end.
Proof.
  induction x as [|c r IH]; intros n cur Hcur.
  - cbn. repeat split; [constructor|lia|]. intros _. unfold nodash in *. now apply Forall_rev.
  - destruct n as [|n].
    + cbn. repeat split; [constructor|lia|lia].
    + cbn [split_dash]. destruct (is_dash c) eqn:Hc.
      * specialize (IH n [] (Forall_nil _)).
        destruct (split_dash (S n) [] r) as [|y l] eqn:E; [contradiction|].
        destruct IH as (H1&H2&H3). cbn [removelast last List.length] in *.
        repeat split.
        -- constructor; [unfold nodash in *; now apply Forall_rev|exact H1].
        -- lia.
        -- intros HL. apply H3. lia.
      * apply is_dash_false in Hc. apply (IH (S n) (c :: cur)). constructor; auto.
Qed.

(* ---------- round trip ---------- *)
Lemma nodash_lit_any : nodash any. Proof. repeat constructor; discriminate. Qed.
Lemma nodash_lit_all : nodash all. Proof. repeat constructor; discriminate. Qed.

Ltac dec :=
  repeat match goal with
  | |- context [str_eqb ?a ?b] => destruct (str_eqb_spec a b); try subst; cbn [andb orb negb]
  end.

Lemma short_of_nodash c : nodash c -> has_dash c = false.
Proof. apply has_dash_false. Qed.

Definition zero_arch (a : arch) : Prop := abi a = [] /\ os a = [] /\ cpu a = [].

Lemma nodash_nil : nodash []. Proof. constructor. Qed.
Lemma nodash_lit_linux : nodash linux. Proof. repeat constructor; discriminate. Qed.

Lemma parse_join2 o c : nodash o -> nodash c ->
  parse_arch (join2 o c) = mk (if str_eqb o any || str_eqb c any then any else gnu) o c.
Proof. intros. unfold parse_arch. now rewrite split2. Qed.
Lemma parse_join3 a o c : nodash a -> nodash o -> parse_arch (join3 a o c) = mk a o c.
Proof. intros. unfold parse_arch. now rewrite split3. Qed.
Lemma parse_plain f : nodash f -> f <> all -> f <> any -> parse_arch f = mk gnu linux f.
Proof.
  intros H1 H2 H3. unfold parse_arch. rewrite (split1 f H1).
  destruct (str_eqb_spec f all); [contradiction|]. destruct (str_eqb_spec f any); [contradiction|]. reflexivity.
Qed.
Lemma parse_any : parse_arch any = mk any any any. Proof. reflexivity. Qed.
Lemma parse_all : parse_arch all = mk all all all. Proof. reflexivity. Qed.

(* the printer is inverted by the parser on every triple the parser can produce *)
Lemma string_inv a o c :
  nodash a -> nodash o -> (has_dash c = true -> True) ->
  ~ (a = [] /\ o = [] /\ c = []) ->
  (* triples produced by the one- and two-part forms satisfy these by construction *)
  parse_arch (arch_string (mk a o c)) = mk a o c.
Proof.
  intros Ha Ho _ Hz. unfold arch_string. cbn [abi os cpu mk].
  destruct (str_eqb_spec a []) as [->|Na]; cbn [andb].
  - destruct (str_eqb_spec o []) as [->|No]; cbn [andb].
    + destruct (str_eqb_spec c []) as [->|Nc]; [exfalso; apply Hz; auto|]. cbn [andb].
      (* a = o = [] , c <> [] *)
      destruct (str_eqb_spec [] c) as [E|_]; [congruence|]. cbn [andb].
      change (str_eqb [] gnu) with false. change (str_eqb [] any) with false. cbn [andb orb].
      rewrite !andb_false_r. cbn [orb]. now apply parse_join3.
    + change (str_eqb [] gnu) with false. change (str_eqb [] any) with false.
      destruct (str_eqb_spec [] o); [congruence|]. cbn [andb orb]. rewrite !andb_false_r. cbn [orb].
      now apply parse_join3.
  - destruct (has_dash c) eqn:Hd; cbn [negb andb orb].
    + (* long cpu: only case 1 or the three-part form *)
      destruct (str_eqb_spec a o) as [->|]; cbn [andb].
      * destruct (str_eqb_spec o c) as [->|]; cbn [andb].
        -- destruct (str_eqb_spec c any) as [->|]; [discriminate Hd|].
           destruct (str_eqb_spec c all) as [->|]; [discriminate Hd|]. cbn [orb]. now apply parse_join3.
        -- now apply parse_join3.
      * now apply parse_join3.
    + apply has_dash_false in Hd.
      destruct (str_eqb_spec a o) as [->|Nao]; cbn [andb].
      * destruct (str_eqb_spec o c) as [->|Noc]; cbn [andb].
        -- destruct (str_eqb_spec c any) as [->|Ncany]; cbn [orb]; [reflexivity|].
           destruct (str_eqb_spec c all) as [->|Ncall]; cbn [orb]; [reflexivity|].
           (* a = o = c, neither any nor all *)
           destruct (str_eqb_spec c gnu) as [->|Ng]; cbn [andb].
           ++ change (str_eqb gnu linux) with false. change (str_eqb gnu any) with false. cbn [andb orb negb].
              rewrite (parse_join2 gnu gnu Hd Hd). reflexivity.
           ++ cbn [orb]. now apply parse_join3.
        -- (* a = o <> c *)
           destruct (str_eqb_spec o gnu) as [->|Ng]; cbn [andb].
           ++ change (str_eqb gnu linux) with false. change (str_eqb gnu any) with false. cbn [andb negb].
              destruct (str_eqb_spec c any) as [->|Ncany]; cbn [negb andb orb].
              ** now apply parse_join3.
              ** rewrite (parse_join2 gnu c Ho Hd). change (str_eqb gnu any) with false.
                 destruct (str_eqb_spec c any); [contradiction|]. reflexivity.
           ++ destruct (str_eqb_spec o any) as [->|Nany]; cbn [andb orb].
              ** rewrite (parse_join2 any c nodash_lit_any Hd). reflexivity.
              ** now apply parse_join3.
      * (* a <> o *)
        destruct (str_eqb_spec a gnu) as [->|Ng]; cbn [andb].
        -- destruct (str_eqb_spec o linux) as [->|Nl]; cbn [andb].
           ++ destruct (str_eqb_spec c any) as [->|Ncany]; cbn [negb andb orb].
              ** change (str_eqb linux any) with false. change (str_eqb gnu any) with false. cbn [negb andb orb].
                 now apply parse_join3.
              ** destruct (str_eqb_spec c all) as [->|Ncall]; cbn [negb andb orb].
                 --- change (str_eqb linux any) with false. cbn [negb andb orb].
                     rewrite (parse_join2 linux all Ho Hd). reflexivity.
                 --- destruct (str_eqb_spec c []) as [->|Ncnil]; cbn [negb andb orb].
                     +++ change (str_eqb linux any) with false. change (str_eqb [] any) with false. cbn [negb andb orb].
                         rewrite (parse_join2 linux [] Ho Hd). reflexivity.
                     +++ now apply parse_plain.
           ++ destruct (str_eqb_spec o any) as [->|Noany]; cbn [negb andb orb].
              ** change (str_eqb gnu any) with false. cbn [andb orb]. now apply parse_join3.
              ** destruct (str_eqb_spec c any) as [->|Ncany]; cbn [negb andb orb].
                 --- change (str_eqb gnu any) with false. cbn [andb orb]. now apply parse_join3.
                 --- rewrite (parse_join2 o c Ho Hd).
                     destruct (str_eqb_spec o any); [contradiction|]. destruct (str_eqb_spec c any); [contradiction|].
                     reflexivity.
        -- cbn [orb]. destruct (str_eqb_spec a any) as [->|Nany]; cbn [andb].
           ++ destruct (str_eqb_spec o any) as [->|Noany]; [congruence|]. cbn [orb].
              destruct (str_eqb_spec c any) as [->|Ncany].
              ** rewrite (parse_join2 o any Ho nodash_lit_any).
                 destruct (str_eqb_spec o any); [contradiction|]. reflexivity.
              ** now apply parse_join3.
           ++ now apply parse_join3.
Qed.

Theorem arch_roundtrip x : ~ zero_arch (parse_arch x) ->
  parse_arch (arch_string (parse_arch x)) = parse_arch x.
Proof.
  intros Hz. pose proof (split_shape x 2 [] (Forall_nil _)) as Sh.
  unfold parse_arch at 2 3. unfold parse_arch in Hz.
  destruct (split_dash 3 [] x) as [|p1 [|p2 [|p3 [|p4 l]]]] eqn:E; cbn [removelast last List.length] in Sh.
  - contradiction.
  - destruct Sh as (_&_&H3). specialize (H3 ltac:(lia)).
    destruct (str_eqb_spec p1 all) as [->|Nall]; [reflexivity|].
    destruct (str_eqb_spec p1 any) as [->|Nany]; [reflexivity|]. cbn [orb].
    apply string_inv; auto; try (repeat constructor; discriminate); try (intros (A&_&_); discriminate).
  - destruct Sh as (H1&_&H3). specialize (H3 ltac:(lia)). inversion H1; subst.
    apply string_inv; auto.
    all: try (destruct (str_eqb p1 any || str_eqb p2 any); [apply nodash_lit_any|repeat constructor; discriminate]).
    all: try (intros (A&_&_); destruct (str_eqb p1 any || str_eqb p2 any); discriminate).
  - destruct Sh as (H1&_&_). inversion H1 as [|? ? Hp1 H1']; subst. inversion H1'; subst.
    apply string_inv; auto. all: try (intros (A&B&C); apply Hz; cbn; auto).
  - destruct Sh as (_&H2&_). cbn in H2. lia.
Qed.
Print Assumptions arch_roundtrip.

Example blank_arch_refuted : parse_arch (arch_string (parse_arch (s "--"))) <> parse_arch (s "--").
Proof. vm_compute. discriminate. Qed.

(* ---------- names with an empty component are rejected (repair: parseArchInto) ---------- *)
Definition arch_ok (x : str) : bool := forallb (fun f => negb (str_eqb f [])) (split_dash 3 [] x).
(* the name proper: an error for "", "-", "linux-", "--", ... *)
Definition parse_arch_core (x : str) : option arch := if arch_ok x then Some (parse_arch x) else None.
(* ParseArch / Arch.UnmarshalControl as the code has them now (parseArchInto after repair 54cb699): the blanks around the name
   are dropped - a folded field arrives as "linux-any\n" - and a name with a blank inside is refused *)
Definition is_ws4 (c : ascii) : bool :=
  match c with " "%char | "009"%char | "010"%char | "013"%char => true | _ => false end.
Fixpoint drop_ws4 (x : str) : str := match x with c :: r => if is_ws4 c then drop_ws4 r else x | [] => [] end.
Definition trim4 (x : str) : str := rev (drop_ws4 (rev (drop_ws4 x))).
Definition parse_arch_opt (x : str) : option arch :=
  let t := trim4 x in if existsb is_ws4 t then None else parse_arch_core t.

Definition nonempty3 (a : arch) : Prop := abi a <> [] /\ os a <> [] /\ cpu a <> [].

Lemma neg_nil f : negb (str_eqb f []) = true <-> f <> [].
Proof. destruct (str_eqb_spec f []); cbn; split; congruence. Qed.

Lemma arch_ok_nonempty x : arch_ok x = true -> nonempty3 (parse_arch x).
Proof.
  unfold arch_ok, parse_arch, nonempty3. pose proof (split_shape x 2 [] (Forall_nil _)) as Sh.
  destruct (split_dash 3 [] x) as [|p1 [|p2 [|p3 [|p4 l]]]] eqn:E; cbn [forallb]; intros H.
  - contradiction.
  - rewrite andb_true_r in H. apply neg_nil in H.
    destruct (str_eqb p1 all || str_eqb p1 any); cbn [mk abi os cpu]; repeat split; auto; discriminate.
  - apply andb_true_iff in H as [H1 H2]. rewrite andb_true_r in H2. apply neg_nil in H1, H2.
    cbn [mk abi os cpu]. repeat split; auto. destruct (str_eqb p1 any || str_eqb p2 any); discriminate.
  - apply andb_true_iff in H as [H1 H]. apply andb_true_iff in H as [H2 H3]. rewrite andb_true_r in H3.
    apply neg_nil in H1, H2, H3. cbn [mk abi os cpu]. auto.
  - cbn [removelast last List.length] in Sh. destruct Sh as (_&H2&_). cbn in H2. lia.
Qed.
Lemma arch_ok_not_zero x : arch_ok x = true -> ~ zero_arch (parse_arch x).
Proof. intros H (A&_&_). destruct (arch_ok_nonempty x H) as (N&_&_). contradiction. Qed.

(* conversely: a text that parses to a triple without empty component has no empty piece *)
Lemma nonempty_arch_ok t : nonempty3 (parse_arch t) -> arch_ok t = true.
Proof.
  unfold arch_ok, parse_arch, nonempty3. pose proof (split_shape t 2 [] (Forall_nil _)) as Sh.
  destruct (split_dash 3 [] t) as [|p1 [|p2 [|p3 [|p4 l]]]] eqn:E; cbn [forallb].
  - contradiction.
  - intros (_&_&C). rewrite andb_true_r. apply neg_nil. destruct (str_eqb p1 all || str_eqb p1 any); exact C.
  - cbn [mk abi os cpu]. intros (_&B&C). rewrite andb_true_r. apply andb_true_iff. split; now apply neg_nil.
  - cbn [mk abi os cpu]. intros (A&B&C). rewrite andb_true_r. repeat (apply andb_true_iff; split); now apply neg_nil.
  - cbn [removelast last List.length] in Sh. destruct Sh as (_&H2&_). cbn in H2. lia.
Qed.

(* C05 for architecture names, without exception: whatever ParseArch accepts renders to a name that ParseArch
   accepts and that parses to the same triple *)
Theorem arch_roundtrip_ok x : arch_ok x = true ->
  arch_ok (arch_string (parse_arch x)) = true /\ parse_arch (arch_string (parse_arch x)) = parse_arch x.
Proof.
  intros H. pose proof (arch_roundtrip x (arch_ok_not_zero x H)) as R. split; [|exact R].
  apply nonempty_arch_ok. rewrite R. now apply arch_ok_nonempty.
Qed.
Theorem arch_core_roundtrip x a : parse_arch_core x = Some a -> parse_arch_core (arch_string a) = Some a.
Proof.
  unfold parse_arch_core. destruct (arch_ok x) eqn:H; [|discriminate]. intros E. inversion E; subst.
  destruct (arch_roundtrip_ok x H) as [O R]. now rewrite O, R.
Qed.

(* ---- blanks: none inside an accepted name, so none in what it renders to ---- *)
Definition clean4 (x : str) : Prop := Forall (fun c => is_ws4 c = false) x.
Lemma clean4_exists x : clean4 x <-> existsb is_ws4 x = false.
Proof.
  unfold clean4. induction x as [|c r IH]; cbn; [split; [reflexivity|constructor]|].
  split.
  - intros H. inversion H; subst. apply orb_false_iff. split; [assumption|now apply IH].
  - intros H. apply orb_false_iff in H as [H1 H2]. constructor; [exact H1|now apply IH].
Qed.
Lemma drop_ws4_clean x : clean4 x -> drop_ws4 x = x.
Proof. intros H. destruct x as [|c r]; [reflexivity|]. inversion H; subst. cbn. now replace (is_ws4 c) with false. Qed.
Lemma clean4_rev x : clean4 x -> clean4 (rev x).
Proof. apply Forall_rev. Qed.
Lemma trim4_clean x : clean4 x -> trim4 x = x.
Proof. intros H. unfold trim4. rewrite (drop_ws4_clean x H), (drop_ws4_clean (rev x) (clean4_rev x H)). apply rev_involutive. Qed.
Lemma clean4_app x y : clean4 x -> clean4 y -> clean4 (x ++ y).
Proof. intros. apply Forall_app. now split. Qed.
Lemma split_dash_clean : forall x n cur, clean4 x -> clean4 cur -> Forall clean4 (split_dash n cur x).
Proof.
  induction x as [|c r IH]; intros n cur Hx Hc; cbn [split_dash].
  - constructor; [now apply clean4_rev|constructor].
  - inversion Hx as [|? ? Hcc Hr]; subst. destruct n as [|[|k]].
    + constructor; [|constructor]. apply clean4_app; [now apply clean4_rev|exact Hx].
    + constructor; [|constructor]. apply clean4_app; [now apply clean4_rev|exact Hx].
    + destruct (is_dash c).
      * constructor; [now apply clean4_rev|]. apply IH; [exact Hr|constructor].
      * apply IH; [exact Hr|]. constructor; assumption.
Qed.
Lemma parse_arch_clean t : clean4 t -> clean4 (abi (parse_arch t)) /\ clean4 (os (parse_arch t)) /\ clean4 (cpu (parse_arch t)).
Proof.
  intros H. pose proof (split_dash_clean t 3 [] H (Forall_nil _)) as S. unfold parse_arch.
  assert (Cg : clean4 gnu) by (repeat constructor). assert (Cl : clean4 linux) by (repeat constructor). assert (Ca : clean4 any) by (repeat constructor).
  destruct (split_dash 3 [] t) as [|p1 [|p2 [|p3 [|p4 l]]]]; cbn [mk abi os cpu].
  - auto.
  - inversion S; subst. destruct (_ || _); cbn [mk abi os cpu]; auto.
  - inversion S as [|? ? H1 S2]; subst. inversion S2; subst. cbn [mk abi os cpu]. destruct (_ || _); auto.
  - inversion S as [|? ? H1 S2]; subst. inversion S2 as [|? ? H2 S3]; subst. inversion S3; subst. auto.
  - auto.
Qed.
Lemma arch_string_clean a : clean4 (abi a) -> clean4 (os a) -> clean4 (cpu a) -> clean4 (arch_string a).
Proof.
  intros A O C. unfold arch_string. assert (D : is_ws4 dash = false) by reflexivity.
  match goal with |- clean4 (if ?b then _ else _) => destruct b; [constructor|] end. cbv zeta.
  match goal with |- clean4 (if ?b then _ else _) => destruct b; [exact C|] end.
  match goal with |- clean4 (if ?b then _ else _) => destruct b; [exact C|] end.
  match goal with |- clean4 (if ?b then _ else _) => destruct b end.
  - unfold join2. apply clean4_app; [exact O|]. constructor; [exact D|exact C].
  - unfold join3. apply clean4_app; [exact A|]. constructor; [exact D|]. apply clean4_app; [exact O|]. constructor; [exact D|exact C].
Qed.

(* C05 for architecture names as ParseArch / UnmarshalControl read them: whatever is accepted - blanks around the name or
   not - renders to a name that is accepted and parses to the same triple *)
Theorem arch_opt_roundtrip x a : parse_arch_opt x = Some a -> parse_arch_opt (arch_string a) = Some a.
Proof.
  unfold parse_arch_opt. cbv zeta. destruct (existsb is_ws4 (trim4 x)) eqn:W; [discriminate|]. intros E.
  apply clean4_exists in W. pose proof E as E0. unfold parse_arch_core in E0. destruct (arch_ok (trim4 x)); [|discriminate].
  inversion E0; subst. destruct (parse_arch_clean (trim4 x) W) as (A&O&C).
  pose proof (arch_string_clean _ A O C) as Cs. rewrite (trim4_clean _ Cs).
  replace (existsb is_ws4 (arch_string (parse_arch (trim4 x)))) with false by (symmetry; now apply clean4_exists).
  now apply (arch_core_roundtrip (trim4 x)).
Qed.
(* the blanks around a name do not matter, a blank inside refuses it *)
Theorem arch_opt_trims w1 x w2 : Forall (fun c => is_ws4 c = true) w1 -> Forall (fun c => is_ws4 c = true) w2 -> clean4 x ->
  parse_arch_opt (w1 ++ x ++ w2) = parse_arch_core x.
Proof.
  intros H1 H2 Hx. unfold parse_arch_opt. cbv zeta.
  assert (D1 : forall y, drop_ws4 (w1 ++ y) = drop_ws4 y) by (intros y; induction H1 as [|c w Hc _ IH]; [reflexivity|cbn; now rewrite Hc]).
  assert (D2 : forall y, drop_ws4 (rev w2 ++ y) = drop_ws4 y).
  { intros y. assert (R : Forall (fun c => is_ws4 c = true) (rev w2)) by (now apply Forall_rev). induction R as [|c w Hc _ IH]; [reflexivity|cbn; now rewrite Hc]. }
  assert (T : trim4 (w1 ++ x ++ w2) = x).
  { unfold trim4. rewrite D1. destruct x as [|c r].
    - cbn [app]. assert (E : drop_ws4 w2 = []) by (clear -H2; induction H2 as [|c w Hc _ IH]; [reflexivity|cbn; now rewrite Hc]). now rewrite E.
    - inversion Hx as [|? ? Hc Hr]; subst. cbn [app drop_ws4]. rewrite Hc.
      change (c :: r ++ w2) with ((c :: r) ++ w2). rewrite rev_app_distr, D2.
      rewrite (drop_ws4_clean (rev (c :: r)) (clean4_rev _ Hx)). apply rev_involutive. }
  rewrite T. replace (existsb is_ws4 x) with false by (symmetry; now apply clean4_exists). reflexivity.
Qed.
Print Assumptions arch_opt_roundtrip.
Example blanks_around_and_inside : parse_arch_opt (s "linux-any" ++ ["010"%char]) = parse_arch_opt (s "linux-any") /\
  parse_arch_opt (s " amd64  ") = parse_arch_opt (s "amd64") /\ parse_arch_opt (s "gnu- - all") = None /\ parse_arch_opt (s "a b") = None /\
  parse_arch_opt (s "linux-any") <> None.
Proof. vm_compute. repeat split; discriminate. Qed.
Example empty_components_rejected : parse_arch_opt (s "--") = None /\ parse_arch_opt (s "linux-") = None /\ parse_arch_opt [] = None /\
  parse_arch_opt (s "-amd64") = None /\ parse_arch_opt (s "a--b") = None /\ parse_arch_opt (s "linux-any") <> None.
Proof. vm_compute. repeat split; discriminate. Qed.
