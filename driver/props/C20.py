"""C20 - upload Copy/Move/Remove act on the control file last and stay in-directory."""
import itertools
import re
import lib

PLAINERR = (b"", b".", b"..")
BAD = [b"../outside/canary", b"../rootcanary", b"sub/inner", b"/etc/hostname", b"a/../../outside/canary", b"..", b".", b"./x"]


def plain(n):
    return n not in PLAINERR and b"/" not in n


def simulate(op, ctl, ctlstate, files):
    """the failing primitive call (tick index) the real conditions correspond to, per the model's tick discipline"""
    if not all(plain(n) for n, _, _ in files):
        return None
    t = 0
    seq = list(files) + [(ctl, ctlstate, b"")]
    for name, state, _ in seq:
        if op == "copy":
            if state == "missing":
                return None                       # fs_get fails, no fault needed
            if state in ("dir", "dirfull"):
                return t + 2                      # open ok, create ok, copy fails (read of a directory)
            if state == "blocked":
                return t + 1                      # create fails: the name is a directory
            t += 3
        elif op == "move":
            if state == "missing":
                return None
            if state == "blocked":
                return t                          # rename onto a non-empty directory fails
            t += 1
        else:
            if state == "missing":
                return None
            if state == "dirfull":
                return t                          # removing a non-empty directory fails
            t += 1
    return None


def model_fs(ctl, ctlstate, text, files):
    fs = []
    def put(d, n, c):
        fs.extend([d, n, c])
    for name, state, content in files:
        if not plain(name):
            continue
        if state in ("ok", "blocked", "occupied", "linkrel"):
            put(b"S", name, content)
        if state == "linkrel":
            put(b"S", b"real-" + name, content)
        elif state == "dir":
            put(b"S", name, b"<dir>")
        elif state == "dirfull":
            put(b"S", name, b"<dirfull>")
        if state == "blocked":
            put(b"D", name, b"<dirfull>")
        if state == "occupied":
            put(b"D", name, content + b"Z" * 250)
    if ctlstate in ("ok", "blocked", "occupied", "symlink"):
        put(b"S", ctl, text)
    if ctlstate == "symlink":
        put(b"outside", ctl, text)
        for name, state, content in files:
            if plain(name):
                put(b"outside", name, b"decoy")
    elif ctlstate == "dir":
        put(b"S", ctl, b"<dir>")
    elif ctlstate == "dirfull":
        put(b"S", ctl, b"<dirfull>")
    if ctlstate == "blocked":
        put(b"D", ctl, b"<dirfull>")
    if ctlstate == "occupied":
        put(b"D", ctl, text + b"Z" * 250)
    put(b"S", b"sub", b"<dirfull>"); put(b"outside", b"canary", b"canary"); put(b"root", b"rootcanary", b"canary")
    return fs


def project_events(ev_text, impl):
    """appearance / disappearance order per directory entry, comparable between inotify and the model's log"""
    out = []
    for e in ev_text.strip("[] ").split():
        tag, rest = e.split(":", 1)
        if impl:
            if tag == "c":
                out.append("+" + rest)
            elif tag == "mt":
                out.append("+" + rest)
            elif tag == "mf":
                out.append("-" + rest)
            elif tag == "d":
                out.append("-" + rest)
        else:
            if tag == "c":
                out.append("+" + rest)
            elif tag == "d":
                out.append("-" + rest)
            elif tag == "m":
                a, b = rest.split(">")
                out.append("-" + a); out.append("+" + b)
    return out


def project_pair(i, m, drop=()):
    """implementation: res filename [entries] [events] text ; model: res [entries] [events] -> comparable projections.
    drop: appearance events to leave out on both sides (a copy onto an existing file opens and truncates it: inotify
    reports no creation, while the model logs one)"""
    it = i.split(" ", 2); mt = m.split(" ", 1)
    if len(it) < 3 or not it[2].startswith("["):
        return i[:200], m[:200]
    body = it[2].rsplit(" ", 1)[0]
    k = body.index("] [") + 1 if "] [" in body else (body.index("] ") + 1)
    ients, ievs = body[:k], body[k + 1:]
    k2 = mt[1].index("] [") + 1 if "] [" in mt[1] else (mt[1].index("] ") + 1)
    ments, mevs = mt[1][:k2], mt[1][k2 + 1:]
    return (it[0] + " " + ients + " " + " ".join(e for e in project_events(ievs, True) if e not in drop),
            mt[0] + " " + ments + " " + " ".join(e for e in project_events(mevs, False) if e not in drop))


def scenarios(chk):
    rng = chk.rng
    names = [b"x_1.0.orig.tar.gz", b"x_1.0-1.debian.tar.xz", b"x_1.0-1_amd64.deb", b"file-with-dash", b"z"]
    out = []
    for kind, ctl in (("dsc", b"x_1.0-1.dsc"), ("changes", b"x_1.0-1_amd64.changes")):
        for op in ("copy", "move", "remove"):
            for n in range(0, 5):
                fl = [(names[i], "ok", b"content of %d " % i * (i + 1)) for i in range(n)]
                out.append((kind, op, ctl, "ok", fl))
                # a failure injected at each referenced file and at the control file itself
                for pos in range(n):
                    for st in ("missing", "dir", "dirfull", "blocked", "occupied"):
                        f2 = list(fl); f2[pos] = (f2[pos][0], st, f2[pos][2])
                        out.append((kind, op, ctl, "ok", f2))
                for st in ("missing", "dir", "dirfull", "blocked", "occupied"):
                    out.append((kind, op, ctl, st, fl))
                if n:
                    out.append((kind, op, ctl, "occupied", [(a, "occupied", c) for a, _, c in fl]))
                # a referenced file is a symbolic link with a relative target beside it: a COPY delivers the bytes (the file in the
                # destination is byte-identical to what the name denotes), not a link that dangles there
                if n and op in ("copy", "move"):
                    for pos in range(n):
                        f2 = list(fl); f2[pos] = (f2[pos][0], "linkrel", f2[pos][2])
                        out.append((kind, op, ctl, "ok", f2))
                # the control file is a symbolic link to a file elsewhere: the operation still acts in the directory the
                # handle was opened in
                out.append((kind, op, ctl, "symlink", fl))
            # listed names that are not plain file names
            for bad in BAD:
                if kind == "changes" and b" " in bad:
                    continue
                for pos in (0, 1):
                    fl = [(names[0], "ok", b"aaa"), (names[1], "ok", b"bbb")]
                    fl.insert(pos, (bad, "ok", b"evil"))
                    out.append((kind, op, ctl, "ok", fl))
            # the control file lists ITSELF (first, in the middle, last; all files present, or a later one missing): it is not one
            # of its own files - the operation is refused before anything is touched
            for pos in (0, 1, 2):
                for st in ("ok", "missing"):
                    fl = [(names[0], "ok", b"aaa"), (names[1], st, b"bbb")]
                    fl.insert(pos, (ctl, "ok", b"self"))
                    out.append((kind, op, ctl, "ok", fl))
            # names listed ONLY in the Checksums-Sha1 / Checksums-Sha256 sections (a control file lists names there too):
            # whatever they are, nothing outside the two directories may be read, overwritten, moved or deleted
            for bad in (b"../outside/canary", b"../rootcanary", b"a/../../outside/canary", b"sub/inner"):
                for pos in (0, 2):
                    fl = [(names[0], "ok", b"aaa"), (names[1], "ok", b"bbb")]
                    fl.insert(pos, (bad, "cksum", b"canary"))
                    out.append((kind, op, ctl, "ok", fl))
    # names with a space cannot be listed in a .changes Files line (split on single blanks): keep them for .dsc only
    out = [s for s in out if not (s[0] == "changes" and any(b" " in n for n, _, _ in s[4]))]
    return out


def run(chk):
    scs = scenarios(chk)
    if chk.tier == "thorough":
        scs = scs * 3
    icases = []
    for kind, op, ctl, ctlstate, files in scs:
        args = [kind.encode(), op.encode(), ctl, ctlstate.encode(), len(files)]
        for n, st, c in files:
            args += [n, st.encode(), c]
        icases.append(("upload", args))
    impl = chk.run_impl(icases)
    # names listed only in the checksum sections are not referenced files: the operations ignore them (the model and the
    # predicates below see the names in Files); the canary predicate judges them
    scs = [(kind, op, ctl, ctlstate, [f for f in files if f[1] != "cksum"]) for kind, op, ctl, ctlstate, files in scs]
    mcases = []
    for (kind, op, ctl, ctlstate, files), i in zip(scs, impl):
        text = bytes.fromhex(i.rsplit(" ", 1)[1][1:]) if " " in i else b""
        ft = simulate(op, ctl, ctlstate, files)
        mcases.append(("upload", [op.encode(), ctl, b"-" if ft is None else str(ft).encode(), len(files)] + [n for n, _, _ in files] + model_fs(ctl, ctlstate, text, files)))
    model = chk.run_model(mcases)
    pi, pm = [], []
    for (kind, op, ctl, ctlstate, files), i, m in zip(scs, impl, model):
        occ = [n for n, st, _ in files if st == "occupied"] + ([ctl] if ctlstate == "occupied" else [])
        drop = {"+x" + b"D".hex() + "/x" + n.hex() for n in occ} if op == "copy" else ()
        if op == "move" and ctlstate == "symlink":
            # a control file that is a symbolic link is not renamed but copied and removed (internal.Move): it appears in the
            # destination and THEN disappears at its source, where a rename shows the two the other way round; the model of this
            # stream has no links (U20L has) - the two events of the control file are left out of the comparison, the order
            # "control file last" is judged below on the real events all the same
            drop = {"+x" + b"D".hex() + "/x" + ctl.hex(), "-x" + b"S".hex() + "/x" + ctl.hex()}
        if op == "move":
            # (likewise a listed file that is a symbolic link - since the r15 repair a MOVE delivers the bytes too)
            drop = set(drop) | {e_ for n_, st_, _ in files if st_ == "linkrel" for e_ in ("+x" + b"D".hex() + "/x" + n_.hex(), "-x" + b"S".hex() + "/x" + n_.hex())}
        a, b = project_pair(i, m, drop)
        pi.append(a); pm.append(b)
    chk.compare("real-file-system-vs-model", mcases, pi, pm, nontrivial=lambda c, r: True, kernel=False)
    for k in range(0, len(mcases), max(1, len(mcases) // 40)):
        chk.kernel_pool.append((mcases[k], model[k]))
    # the property itself on the implementation's observations
    for (kind, op, ctl, ctlstate, files), c, i in zip(scs, icases, impl):
        it = i.split(" ", 2)
        if len(it) < 3:
            chk.violate({"kind": "property", "case": lib.show_case(c), "impl": i[:300], "explanation": "the operation did not complete normally"}); continue
        res, fn = it[0], bytes.fromhex(it[1][1:])
        body = it[2].rsplit(" ", 1)[0]
        k = body.index("] [") + 1 if "] [" in body else (body.index("] ") + 1)
        ents = {}
        for e in body[:k].split("( ")[1:]:
            a, b = e.split()[:2]
            ents[bytes.fromhex(a[1:])] = bytes.fromhex(b[1:])
        evs = project_events(body[k + 1:], True)
        hxn = lambda d, n: "x" + d.hex() + "/x" + n.hex()
        why = None
        listed = [n for n, _, _ in files]
        allowed_out = {b"outside/canary": b"canary"}
        if ctlstate == "symlink":
            allowed_out[b"outside/" + ctl] = bytes.fromhex(i.rsplit(" ", 1)[1][1:])
            for n in listed:
                if plain(n):
                    allowed_out[b"outside/" + n] = b"decoy"
        if ents.get(b"root/rootcanary") != b"canary" or ents.get(b"S/sub") != b"<dirfull>" \
                or {k: v for k, v in ents.items() if k.startswith(b"outside/")} != allowed_out:
            why = "a file outside the control file's directory and the destination was read into the destination, overwritten, moved or deleted"
        elif not all(plain(n) for n in listed):
            if res != "err":
                why = "listed names that are not plain file names were accepted"
            elif any(k.startswith(b"D/") for k in ents) or evs:
                why = "something was touched although a listed name is not a plain file name"
        elif op in ("copy", "move"):
            dctl = b"D/" + ctl
            appear = [e for e in evs if e == "+" + hxn(b"D", ctl)]
            if res == "ok":
                if fn != dctl:
                    why = "after a successful %s the handle does not point at the new location" % op
                ctext = bytes.fromhex(i.rsplit(" ", 1)[1][1:])
                for n, st, cnt in files + [(ctl, ctlstate, ctext)]:
                    want = cnt if cnt is not None else None
                    if st in ("dir", "dirfull"):
                        want = b"<" + st.encode() + b">"      # a directory listed as a file is moved as it is
                    if b"D/" + n not in ents or (want is not None and ents[b"D/" + n] != want):
                        why = "after a successful %s a file in the destination is missing or differs from the original" % op
                    if op == "copy" and (b"S/" + n not in ents or (want is not None and ents[b"S/" + n] != want)):
                        why = "a successful copy changed or removed an original"
                if appear:
                    first = evs.index(appear[0])
                    for n, st, _ in files:
                        if st == "occupied" and op == "copy":
                            continue          # it was in the destination all along (opened and truncated, not created)
                        if "+" + hxn(b"D", n) not in evs[:first]:
                            why = "the control file became visible in the destination before the referenced file %s" % n.decode()
            else:
                if dctl in ents and ents[dctl] != b"<dirfull>":
                    why = "the operation failed but the control file is in the destination"
                if op == "move" and ctlstate == "ok" and b"S/" + ctl not in ents:
                    why = "the move failed but the control file is no longer at its source"
        else:
            if res == "ok":
                if any(b"S/" + n in ents for n in listed + [ctl]):
                    why = "after a successful removal a file is still there"
            rm = "-" + hxn(b"S", ctl)
            if rm in evs:
                first = evs.index(rm)
                for n in listed:
                    if "-" + hxn(b"S", n) not in evs[:first]:
                        why = "the control file was removed before the referenced file %s" % n.decode()
            if res == "err" and ctlstate == "ok" and b"S/" + ctl not in ents:
                why = "the removal failed but the control file is gone"
        if why:
            chk.violate({"kind": "property", "case": lib.show_case(c), "impl": i[:1200], "explanation": why})
    # ---- histories: a second operation through the SAME handle (all files present, no faults)
    names = [b"x_1.0.orig.tar.gz", b"x_1.0-1.debian.tar.xz", b"x_1.0-1_amd64.deb"]
    hist = []
    for kind, ctl in (("dsc", b"x_1.0-1.dsc"), ("changes", b"x_1.0-1_amd64.changes")):
        for op in ("copy+remove", "move+remove", "copy+move", "move+move", "copy+copy", "move+copy"):
            for n in range(0, 4):
                hist.append((kind, op, ctl, "ok", [(names[k], "ok", b"content %d " % k * (k + 1)) for k in range(n)]))
    hic = []
    for kind, op, ctl, ctlstate, files in hist:
        args = [kind.encode(), op.encode(), ctl, b"ok", len(files)]
        for n, st, c in files:
            args += [n, st.encode(), c]
        hic.append(("upload", args))
    himpl = chk.run_impl(hic)
    hmc = []
    for (kind, op, ctl, ctlstate, files), i in zip(hist, himpl):
        text = bytes.fromhex(i.rsplit(" ", 1)[1][1:]) if " " in i else b""
        hmc.append(("upload", [op.encode(), ctl, b"-", len(files)] + [n for n, _, _ in files] + model_fs(ctl, "ok", text, files)))
    hmodel = chk.run_model(hmc)
    hpi, hpm = [], []
    for i, m in zip(himpl, hmodel):
        a, b = project_pair(i, m)
        hpi.append(a); hpm.append(b)
    chk.compare("histories-through-one-handle", hmc, hpi, hpm, nontrivial=lambda c, r: True, kernel=False)
    for (kind, op, ctl, ctlstate, files), c, i in zip(hist, hic, himpl):
        it = i.split(" ", 2)
        why = None
        if len(it) < 3 or it[0] != "ok+ok":
            why = "two operations through one handle on an intact upload did not both succeed"
        else:
            fn = bytes.fromhex(it[1][1:])
            body = it[2].rsplit(" ", 1)[0]
            k = body.index("] [") + 1 if "] [" in body else (body.index("] ") + 1)
            ents = {}
            for e in body[:k].split("( ")[1:]:
                a, b = e.split()[:2]
                ents[bytes.fromhex(a[1:])] = bytes.fromhex(b[1:])
            o1, o2 = op.split("+")
            every = [(n, cnt) for n, _, cnt in files] + [(ctl, None)]
            def holds(d, present):
                for n, cnt in every:
                    key = d + b"/" + n
                    if present and (key not in ents or (cnt is not None and ents[key] != cnt)):
                        return False
                    if not present and key in ents:
                        return False
                return True
            # where the files must be in the end
            s_has = (o1 == "copy")
            d_has = (o2 == "copy")
            d2_has = (o2 in ("copy", "move"))
            if ents.get(b"outside/canary") != b"canary" or ents.get(b"root/rootcanary") != b"canary" or ents.get(b"S/sub") != b"<dirfull>":
                why = "a file outside the directories involved was touched"
            elif not holds(b"S", s_has):
                why = "after %s the originals are %s" % (op, "not intact" if s_has else "still in the source directory")
            elif not holds(b"D", d_has):
                why = "after %s the first destination %s" % (op, "lacks files" if d_has else "still holds files: the second operation did not act where the handle points")
            elif not holds(b"D2", d2_has):
                why = "after %s the second destination %s" % (op, "lacks files or they differ from the originals" if d2_has else "holds files")
            elif o2 != "remove" and fn != b"D2/" + ctl:
                why = "after %s the handle does not point at the second destination" % op
        if why:
            chk.violate({"kind": "property", "case": lib.show_case(c), "impl": i[:1500], "explanation": why})
    # the path functions the operations rely on (path.Join, filepath.Base, filepath.Dir) against their model PATH.v, whose
    # facts about plain names (C20_plain_name_is_an_entry_of_its_directory) the upload model is built on
    import pathgen
    pathgen.stream(chk, ["pjoin", "pbase", "pdir"])
    # ---- retries: the first operation fails half-way, the cause is repaired, the operation is tried again through the same
    # handle into the SAME destination: it succeeds, every file in the destination is byte-identical to its original and (for
    # a copy) the originals are intact
    rsc = []
    for kind, ctl in (("dsc", b"x_1.0-1.dsc"), ("changes", b"x_1.0-1_amd64.changes")):
        for op in ("copy~copy", "copy~move"):     # (a failed move has already moved the earlier files: a retry is not promised)
            for n in (2, 3):
                for pos in range(n):
                    for st in ("missing", "blocked"):
                        fl = [(names[k], "ok", b"content %d " % k * (k + 2)) for k in range(n)]
                        fl[pos] = (fl[pos][0], st, fl[pos][2])
                        rsc.append((kind, op, ctl, fl))
    rcases = []
    for kind, op, ctl, files in rsc:
        args = [kind.encode(), op.encode(), ctl, b"ok", len(files)]
        for n_, st, c_ in files:
            args += [n_, st.encode(), c_]
        rcases.append(("upload", args))
    rimpl = chk.run_impl(rcases)
    chk.record("retry-after-a-failure", rcases, rimpl, lambda c, r: r.startswith("err~ok"))
    for (kind, op, ctl, files), c, i in zip(rsc, rcases, rimpl):
        it = i.split(" ", 2)
        why = None
        if len(it) < 3 or it[0] != "err~ok":
            why = "the first attempt did not fail or the retry after repairing the cause did not succeed (%s)" % it[0]
        else:
            body = it[2].rsplit(" ", 1)[0]
            k = body.index("] [") + 1 if "] [" in body else (body.index("] ") + 1)
            ents = {}
            for e in body[:k].split("( ")[1:]:
                a, b = e.split()[:2]
                ents[bytes.fromhex(a[1:])] = bytes.fromhex(b[1:])
            o2 = op.split("~")[1]
            for n_, st, cnt in files:
                if ents.get(b"D/" + n_) != cnt:
                    why = "after the retry the file %s in the destination is not byte-identical to the original" % n_.decode()
                if o2 == "copy" and ents.get(b"S/" + n_) != cnt:
                    why = "after the retried copy the original %s is no longer intact" % n_.decode()
            if b"D/" + ctl not in ents:
                why = why or "after the retry the control file is not in the destination"
            if ents.get(b"outside/canary") != b"canary" or ents.get(b"root/rootcanary") != b"canary":
                why = "a file outside the directories involved was touched"
        if why:
            chk.violate({"kind": "property", "case": lib.show_case(c), "impl": i[:1500], "explanation": why})
    # the destination IS the upload's own directory (or leads back to it: a symbolic link to it, a directory of hard links to
    # its files): whatever the call answers, no file of the upload loses its content, and after a nil error the handle
    # points at a control file that is byte-identical to the original, next to byte-identical referenced files
    sc = []
    for kind in (b"dsc", b"changes"):
        for op in (b"copy", b"move"):
            for variant in (b"same", b"symlink", b"hardlinks", b"destlink"):
                for _ in range(chk.n(3, 30)):
                    files = []
                    for k in range(chk.rng.randrange(1, 4)):
                        files += [b"f%d_1.0.tar.gz" % k, bytes(chk.rng.randrange(256) for _ in range(chk.rng.randrange(1, 300)))]
                    sc.append(("uploadself", [kind, op, variant] + files))
    si = chk.run_impl(sc)
    chk.record("destination-is-the-uploads-own-directory", sc, si, lambda c, r: r.startswith("ok"))
    for c, r in zip(sc, si):
        parts = r.split(" ", 3)
        why = None
        if len(parts) < 4 or parts[0] not in ("ok", "err"):
            why = "the operation did not finish normally (%s)" % r[:60]
        else:
            body, text = parts[3].rsplit(" ", 1)
            ents = {bytes.fromhex(n): bytes.fromhex(v) for n, v in re.findall(r"\( x([0-9a-f]*) x([0-9a-f]*) \)", body)}
            orig = {c[1][i]: c[1][i + 1] for i in range(3, len(c[1]), 2)}
            orig[b"x_1.0-1." + c[1][0]] = bytes.fromhex(text[1:])
            if ents.get(b"outside/precious", b"precious") != b"precious":
                chk.violate({"kind": "property", "case": lib.show_case(c), "impl": r[:600],
                             "explanation": "a file outside the control file's directory and the destination was overwritten: the destination held a symbolic link named like a listed file, and the copy was written through it"})
                continue
            for where, content in ents.items():
                d, n = where.split(b"/", 1)
                if d == b"outside" or (c[1][2] == b"destlink" and d == b"D" and n == c[1][3]):
                    continue          # (the link itself reads as its target)
                if n in orig and content != orig[n]:
                    why = "the file %s of the upload lost its content (%d of %d bytes left)" % (where.decode(), len(content), len(orig[n]))
            if parts[0] == "ok":
                if parts[2] != "x" + orig[b"x_1.0-1." + c[1][0]].hex():
                    why = why or "after a nil error the handle does not point at a byte-identical control file"
                for n, content in orig.items():
                    if not any(w.split(b"/", 1)[1] == n and v == content for w, v in ents.items()):
                        why = why or "after a nil error the file %s is nowhere byte-identical to the original" % n.decode()
        if why:
            chk.violate({"kind": "property", "case": lib.show_case(c), "impl": r[:900], "explanation": why})
    # names that denote other files (model U20L): the directories already hold symbolic links - under a listed name in the
    # destination (to a file outside, to nothing, to the upload's own file, to another name of the destination, to itself),
    # in place of a listed file in the source - and Copy runs into that.  What every name IS afterwards (a file with its
    # bytes, a link with its target), model against the real file system; and the statement itself: nothing outside the
    # destination directory changed, after a nil error every name of the upload reads the same bytes in both places.
    lc = []
    OUT = [b"O", b"x", b"F", b"precious", b"O", b"y", b"F", b"yyy", b"D", b"z", b"F", b"zzz"]
    def s_states(n):
        return [[b"S", n, b"F", b"content of " + n], [b"S", n, b"L", b"O/y"], [b"S", n, b"L", b"O/nothing"], []]
    def d_states(n, other):
        return [[], [b"D", n, b"F", b"old bytes, longer than the new ones " * 3], [b"D", n, b"L", b"O/x"], [b"D", n, b"L", b"O/nothing"],
                [b"D", n, b"L", b"S/" + n], [b"D", n, b"L", b"D/z"], [b"D", n, b"L", b"D/" + other], [b"D", n, b"L", b"D/" + n],
                [b"D", n, b"L", b"D/hop-" + n, b"D", b"hop-" + n, b"L", b"O/x"]]
    for kind in (b"dsc", b"changes"):
        ctl = b"x_1.0-1." + kind
        for ss in s_states(b"a.tar"):
            for ds in d_states(b"a.tar", b"b.tar"):
                for cs in d_states(ctl, b"a.tar")[:6]:
                    lc.append((kind, [b"a.tar"], ss + ds + cs + OUT))
        for _ in range(chk.n(150, 3000)):
            names = [b"a.tar", b"b.tar", b"c.tar"][:chk.rng.randrange(0, 4)]
            nodes = []
            for k, n in enumerate(names):
                nodes += chk.rng.choice(s_states(n)[:3] * 3 + [[]]) + chk.rng.choice(d_states(n, names[(k + 1) % len(names)]))
            nodes += chk.rng.choice(d_states(ctl, b"a.tar")[:6])
            lc.append((kind, names, nodes + OUT))
    # (found by the thorough tier at the very end of the session) destination links that lead back THROUGH the source's own links
    # to the file the source link stands for: with os.Stat the copy took them for "the same file", copied nothing, and the move
    # then removed the source links and left the chain dangling
    for kind in (b"dsc", b"changes"):
        lc.append((kind, [b"a.tar", b"b.tar"], [b"S", b"a.tar", b"L", b"O/y", b"D", b"a.tar", b"L", b"D/b.tar", b"S", b"b.tar", b"L", b"O/y",
                                                b"D", b"b.tar", b"L", b"S/b.tar"] + OUT))
        lc.append((kind, [b"a.tar"], [b"S", b"a.tar", b"L", b"O/y", b"D", b"a.tar", b"L", b"O/y"] + OUT))
        lc.append((kind, [b"a.tar"], [b"S", b"a.tar", b"L", b"D/a.tar", b"D", b"a.tar", b"F", b"the only copy"] + OUT))
        lc.append((kind, [b"a.tar"], [b"S", b"a.tar", b"F", b"bytes", b"D", b"a.tar", b"L", b"D/hop-x", b"D", b"hop-x", b"L", b"S/a.tar"] + OUT))
    for lop in ("copylinks", "movelinks"):
        lic = [(lop, [kind, len(names)] + names + nodes) for kind, names, nodes in lc]
        limpl = chk.run_impl(lic)
        lmc, lpi = [], []
        for (kind, names, nodes), i in zip(lc, limpl):
            text = bytes.fromhex(i.rsplit(" ", 1)[1][1:]) if " " in i else b""
            lmc.append((lop, [b"x_1.0-1." + kind, len(names)] + names + nodes + [b"S", b"x_1.0-1." + kind, b"F", text]))
            lpi.append(i.rsplit(" ", 1)[0] if " " in i else i)
        lmodel = chk.run_model(lmc)
        chk.compare("links-in-the-directories-vs-model-" + lop[:4], lmc, lpi, lmodel, nontrivial=lambda c, r: True, kernel=False)
        for k in range(0, len(lmc), max(1, len(lmc) // 20)):
            chk.kernel_pool.append((lmc[k], lmodel[k]))
        for (kind, names, nodes), c, i in zip(lc, lic, limpl):
            if i.split(" ", 1)[0] not in ("ok", "err"):
                chk.violate({"kind": "property", "case": lib.show_case(c), "impl": i[:300], "explanation": "the operation did not finish normally"})
                continue
            after = {bytes.fromhex(a): (k_, bytes.fromhex(b)) for a, k_, b in re.findall(r"\( x([0-9a-f]*) ([FL]) x([0-9a-f]*) \)", i)}
            before = {nodes[j] + b"/" + nodes[j + 1]: (nodes[j + 2].decode(), nodes[j + 3]) for j in range(0, len(nodes), 4)}
            ctl = b"x_1.0-1." + kind
            before[b"S/" + ctl] = ("F", bytes.fromhex(i.rsplit(" ", 1)[1][1:]))
            def read(fs, name, fuel=40):
                while fuel and name in fs and fs[name][0] == "L":
                    name, fuel = fs[name][1], fuel - 1
                return fs[name][1] if fuel and name in fs and fs[name][0] == "F" else None
            inside = (b"D/",) if lop == "copylinks" else (b"D/", b"S/")
            why = None
            for name, node in before.items():
                if not name.startswith(inside) and after.get(name) != node:
                    why = "%s, outside the director%s the operation works in, was %s and is %s afterwards" % (name.decode(), "y" if len(inside) == 1 else "ies", node, after.get(name))
            for name in after:
                if not name.startswith(inside) and name not in before:
                    why = "%s appeared outside the directories the operation works in" % name.decode()
            if i.startswith("ok") and lop == "copylinks":
                for n in names + [ctl]:
                    if read(after, b"D/" + n) is None or read(after, b"D/" + n) != read(before, b"S/" + n):
                        why = why or "after a nil error %s in the destination does not read the bytes of the original" % n.decode()
            elif i.startswith("ok"):
                for n in names + [ctl]:
                    # a plain file arrives as it was; a symbolic link arrives as the bytes it stood for (it is not moved as a link)
                    was = before.get(b"S/" + n)
                    want = ("F", read(before, b"S/" + n)) if was and was[0] == "L" else was
                    if after.get(b"D/" + n) != want or (b"S/" + n) in after:
                        why = why or "after a successful move %s is not in the destination as the file it was at its source (or is still at its source)" % n.decode()
            else:
                if after.get(b"D/" + ctl) != before.get(b"D/" + ctl) and (b"D/" + ctl) in after:
                    why = why or "the operation failed but a control file was put into the destination"
                if lop == "movelinks" and after.get(b"S/" + ctl) != before.get(b"S/" + ctl):
                    why = why or "the move failed but the control file is no longer at its source"
            if why:
                chk.violate({"kind": "property", "case": lib.show_case(c), "impl": i[:900], "explanation": why})
    chk.extra["link_scenarios"] = len(lc)
    chk.extra["history_scenarios"] = len(hist)
    chk.extra["scenarios"] = len(scs)
    chk.trusted.append("the OS file system (ext4/overlay under /var/tmp) and inotify as the observer of the order of appearance")
    chk.trusted.append("U20L models symbolic links only (a name is a file or a link to a name; at most 40 links are followed): hard links, directories as targets and permissions are outside it and are exercised by the uploadself / upload streams against predicates, not against the model")
    chk.assumptions += ["crash points are the model's primitive-call boundaries; failures are injected with real conditions (missing source, source is a directory, destination name occupied by a non-empty directory, non-empty directory to remove)",
                        "atomicity of rename/write under power loss is not claimed"]


def replay(chk, d):
    c = lib.case_from_replay(d)
    print("impl:", chk.run_impl([c])[0][:1200])
    return 0
