"""C09 - struct marshal/unmarshal round-trips and passes unknown fields through."""
import lib
import gen
import depgen
import debgen
from props.C03 import rand_triple
from props.C06 import name_to_triple

US, RS = b"\x1f", b"\x1e"

# mirrors harness/probe/probe.go (checked at run time through the 'cshow' op): (go name, key, kind, flags)
PROBES = {
    "probe_scalars": [("Name", "Name", "str", {}), ("Count", "Count", "int", {}), ("SizeOf", "Size-Of", "uint", {}),
                      ("Flag", "Flag", "bool", {}), ("Must", "Must", "str", {"required": True}),
                      ("Text", "Long-Text", "text", {"multiline": True}), ("MustNum", "Must-Num", "int", {"required": True}),
                      ("Optional", "X-Optional", "str", {})],
    "probe_lists": [("Words", "Words", "list:word: ", {}), ("Commas", "Comma-List", "list:item:,", {}),
                    ("Lines", "Line-List", "list:item:\n", {}), ("Pipes", "Pipes", "list:item:|", {}),
                    ("Nums", "Nums", "list:int:,", {}), ("Archs", "Architecture", "list:arch: ", {}),
                    ("MustList", "Must-List", "list:item:,", {"required": True}), ("MustNums", "Must-Nums", "list:int:,", {"required": True})],
    "probe_custom": [("Version", "Version", "version", {}), ("Depends", "Depends", "dep", {}), ("Arch", "Architecture", "arch", {}),
                     ("Hashes", "Checksums-Sha256", "list:hash:\n", {"multiline": True}), ("Source", "Source", "str", {"required": True})],
    "probe_plain": [("Package", "Package", "str", {"required": True}), ("Version", "Version", "version", {}),
                    ("Tags", "Tag", "list:item:,", {}), ("Size", "Size", "uint", {}), ("Yes", "Yes", "bool", {})],
}
HAS_PARA = {"probe_scalars": True, "probe_lists": True, "probe_custom": True, "probe_plain": False}
WORDS = [b"foo", b"bar-1", b"x.y", b"a", b"1.0", b"caf\xc3\xa9", b"A:B", b"q=r"]


def hx(b):
    return "x" + b.hex()


def show_list(items):
    return "[]" if not items else "[ " + " ".join(items) + " ]"


def gen_value(rng, kind):
    """returns (argument bytes, canonical text, python value)"""
    if kind == "str":
        v = rng.choice([b"", b"foo", b"two words", b"a: b", b"caf\xc3\xa9", b"x" * 40, b"#hash", b"-dash"])
        return v, hx(v), v
    if kind == "text":
        lines = [rng.choice([b"first", b"second line", b" indented", b"", b"x:y"]) for _ in range(rng.randrange(0, 4))]
        while lines and lines[-1] == b"":
            lines.pop()
        v = b"\n".join(lines)
        return v, hx(v), v
    if kind == "int":
        v = rng.choice([0, 1, -1, 42, -7, 2**31, 2**63 - 1, -2**63, rng.randrange(-10**6, 10**6)])
        return str(v).encode(), str(v), v
    if kind == "uint":
        v = rng.choice([0, 1, 7, 2**32, 2**63, 2**64 - 1, rng.randrange(10**9)])
        return str(v).encode(), str(v), v
    if kind == "bool":
        v = rng.random() < 0.5
        return (b"1" if v else b"0"), ("T" if v else "F"), v
    if kind == "version":
        e, up, rv = rand_triple(rng)
        if rng.random() < 0.15:
            return b"0" + US + US, "( 0 x x )", (0, b"", b"")
        return str(e).encode() + US + up + US + rv, "( %d %s %s )" % (e, hx(up), hx(rv)), (e, up, rv)
    if kind == "dep":
        if rng.random() < 0.2:
            return b"", "[]", []
        d = depgen.rand_dep(rng, 3, 2, 0.5)
        text = depgen.render(d, depgen.Layout(rng, "canon"))
        return text, depgen.denote(d)[3:], d
    if kind == "arch":
        n = rng.choice([b"amd64", b"linux-any", b"any", b"all", b"musl-linux-arm64", b"kfreebsd-amd64"])
        t = name_to_triple(n)
        return US.join(t), "( " + " ".join(hx(c) for c in t) + " )", t
    if kind == "hash":
        h = bytes(rng.choice(b"0123456789abcdef") for _ in range(64))
        size = rng.randrange(0, 10**9)
        name = rng.choice([b"foo_1.0.dsc", b"a.tar.gz", b"x"])
        return h + US + str(size).encode() + US + name, "( %s %s %d %s %s )" % (hx(b"sha256"), hx(h), size, hx(name), hx(b"SHA256")), (h, size, name)
    if kind == "word":
        v = rng.choice(WORDS)
        return v, hx(v), v
    if kind == "item":
        v = rng.choice(WORDS + [b"two words", b"A B <a@b.c>"])
        return v, hx(v), v
    raise ValueError(kind)


def gen_field(rng, kind):
    if kind.startswith("list:"):
        _, ek, delim = kind.split(":", 2)
        n = rng.choice([0, 1, 2, 3, 5])
        items = [gen_value(rng, ek) for _ in range(n)]
        if ek == "item" and delim in (",", "|") and n >= 1 and rng.random() < 0.25:
            # an empty element - first, in the middle or last - is an element like any other for these delimiters
            for _ in range(rng.choice([1, 1, 2])):
                items.insert(rng.randrange(len(items) + 1), (b"", hx(b""), b""))
        arg = b"".join(a + RS for a, _, _ in items)
        return arg, show_list([c for _, c, _ in items]), [v for _, _, v in items]
    return gen_value(rng, kind)


def norm_text(canon, kind):
    return canon


def run(chk):
    rng = chk.rng
    cases, want, metas = [], [], []
    # names of the Go fields that lie inside the struct-typed fields of each probe type (the embedded Paragraph's Values and
    # Order among them), from the compiled types: as keys of UNKNOWN fields they must pass through like any other
    nested = {}
    for tname, r in zip(PROBES, chk.run_impl([("tfieldnames", [t.encode()]) for t in PROBES])):
        nested[tname] = [bytes.fromhex(h[1:]) for h in r.strip("[] ").split()]
    chk.extra["nested_field_names"] = {k: [x.decode() for x in v] for k, v in nested.items()}
    for tname, fields in PROBES.items():
        for _ in range(chk.n(1200, 24000)):
            found = []
            if HAS_PARA[tname] and rng.random() < 0.7:
                # unknown fields, some named like the fields of the nested custom types (version.Version has Epoch,
                # Version, Revision; dependency.Arch has ABI, OS, CPU; Dependency has Relations): they are unknown to
                # the struct all the same and must pass through without touching any typed field
                pool = [b"X-Unknown", b"Zeta", b"Another-Field", b"X-B", b"Epoch", b"Revision", b"Native", b"Relations", b"ABI", b"OS", b"CPU",
                        b"Possibilities", b"Algorithm", b"Hash", b"Filename"]
                pool += [x for x in nested.get(tname, []) if x not in pool and x not in {f[1].encode() for f in fields}]
                # ... and like fields that OTHER struct types of the program know (and may have omitted a moment ago): to this
                # struct they are unknown fields like any other
                own = {f[1].encode() for f in fields}
                pool += sorted({f[1].encode() for tn, fs in PROBES.items() if tn != tname for f in fs} - own - set(pool))
                keys = rng.sample(pool, rng.randrange(0, 4))
                for k in keys:
                    found.append((k, rng.choice([b"v1", b"some value", b"1.0", b"3", b"yes"])))
                if rng.random() < 0.5:
                    # stale values of known fields sit in the embedded paragraph too
                    f = rng.choice(fields)
                    found.insert(rng.randrange(len(found) + 1), (f[1].encode(), b"stale"))
                if rng.random() < 0.4:
                    # ... and so do fields the struct knows under ANOTHER SPELLING (field names are not case-sensitive: "package"
                    # is Package): one, or two of them, with or without the field in the struct's own spelling beside them
                    f = rng.choice(fields)
                    k = f[1].encode()
                    variants = [v for v in (k.lower(), k.upper(), k.swapcase()) if v != k and v not in [x for x, _ in found]]
                    for v in rng.sample(variants, min(len(variants), rng.choice([1, 1, 2]))):
                        found.insert(rng.randrange(len(found) + 1), (v, rng.choice([b"stale", b"1.0", b"3"])))
            args = [tname.encode(), len(found)]
            for k, v in found:
                args += [k, v]
            vals = []
            for (gname, key, kind, flags) in fields:
                a, c, v = gen_field(rng, kind)
                args.append(a); vals.append((gname, key, kind, flags, c, v))
            cases.append(("croundtrip", args)); metas.append((tname, found, vals))
    # 0. the driver's argument conventions: what the struct holds is what the driver thinks it passed
    shown = chk.run_impl([("cshow", c[1]) for c in cases[::9]])
    for c, s, (tname, found, vals) in zip(cases[::9], shown, metas[::9]):
        exp = "ok " + " ".join("%s=%s" % (g, cn) for g, _, _, _, cn, _ in vals)
        if s != exp:
            raise lib.Infra("driver/harness value conventions disagree for %s:\n%s\n%s" % (tname, s, exp))
    impl, model = chk.run_both(cases)
    chk.compare("marshal-unmarshal", cases, impl, model, nontrivial=lambda c, r: r.startswith("ok"))
    for c, i, (tname, found, vals) in zip(cases, impl, metas):
        why = None
        parts = i.split(" ", 3)
        if i == "panic":
            why = "marshalling a supported type panicked"
        elif i.startswith("ok x err") and i.split(" ")[1] == "x":
            continue        # every field empty and optional: nothing is written, and an empty text holds no paragraph to read back
        elif len(parts) < 4 or parts[0] != "ok" or parts[2] != "ok":
            why = "marshalling or unmarshalling a supported value failed"
        else:
            text = bytes.fromhex(parts[1][1:])
            got = dict(kv.split("=", 1) for kv in split_record(parts[3]))
            for g, key, kind, flags, canon, v in vals:
                exp = canon
                if kind == "text" and v != b"":
                    exp = hx(v + b"\n")         # the reader ends a folded value with a newline (C08: up to one trailing newline)
                if got.get(g) != exp:
                    why = "field %s does not round-trip: got %s, expected %s" % (g, got.get(g), exp)
            keys_written = [l.split(b":", 1)[0] for l in text.split(b"\n") if l and not l.startswith((b" ", b"\t"))]
            for g, key, kind, flags, canon, v in vals:
                empty = canon in ("x", "[]", "( 0 x x )") or (kind == "arch" and False)
                k = key.encode()
                if flags.get("required") and k not in keys_written:
                    why = "required field %s was not written" % key
                if not flags.get("required") and kind in ("str", "text", "version", "dep") and empty and k in keys_written:
                    why = "optional empty field %s was written" % key
                if not flags.get("required") and kind.startswith("list:") and canon == "[]" and k in keys_written:
                    why = "optional empty list %s was written" % key
            known = {key.encode() for _, key, _, _, _, _ in vals}
            fkeys = {k for k, _ in found}

            def spelled(k):
                """the struct's spelling of a field it knows in another letter case"""
                if k in known:
                    return k
                for n in known:
                    if n.lower() == k.lower():
                        return n
                return k
            unk_in = [k for k, _ in found if spelled(k) not in known]
            unk_out = [k for k in keys_written if k not in known]
            if any(k not in known and spelled(k) in known for k in keys_written) or len({k.lower() for k in keys_written}) != len(keys_written):
                why = "a field the struct knows was written in another spelling, or twice"
            if HAS_PARA[tname] and unk_in != unk_out:
                why = "unknown fields were not re-emitted in their original order: %r vs %r" % (unk_in, unk_out)
            if HAS_PARA[tname]:
                for k, v in found:
                    if spelled(k) not in known and (k + b": " + v + b"\n") not in text:
                        why = "unknown field %r was not re-emitted unchanged" % k
        if why:
            chk.violate({"kind": "property", "case": lib.show_case(c), "impl": i[:1500], "explanation": why})
    # the marshalled text unmarshalled INTO THE VALUE IT CAME FROM, twice: the same record as into a fresh value - every kind of
    # field is replaced by what the text says, a list is not appended to what the field held (r15 finding)
    sc = [("croundtripself", c[1]) for c in cases[::3]]
    si = chk.run_impl(sc)
    chk.record("unmarshal-into-the-value-itself", sc, si, lambda c, r: r.startswith("ok"))
    for c, r, fresh in zip(sc, si, impl[::3]):
        if r != fresh:
            chk.violate({"kind": "property", "case": lib.show_case(c), "impl": r[:900], "into_a_fresh_value": fresh[:900],
                         "explanation": "unmarshalling the marshalled text into the value it came from does not reproduce the value (a list field is appended to, not replaced)"})
    # nil in the place of a value (a nil *T, the untyped nil, a slice holding a nil *T) through Marshal, Encoder.Encode and
    # ConvertToParagraph: an error each time, never a panic, and nothing written
    nc = [("cmarshalnil", [t.encode()]) for t in PROBES]
    ni = chk.run_impl(nc)
    chk.record("marshalling-nil", nc, ni, lambda c, r: True)
    for c, r in zip(nc, ni):
        if r != "err err err err err err written=0":
            chk.violate({"kind": "property", "case": lib.show_case(c), "impl": r,
                         "explanation": "marshalling nil (Marshal / Encode / ConvertToParagraph of a nil pointer, of nil, of a slice holding a nil pointer) panicked or did not fail"})
    # a struct-typed field tagged control:"-" whose own fields are named like fields of the document: not written, and not
    # touched by the decoder either
    kc = [("cskipstruct", [a, b]) for a, b in ((b"hello", b"large"), (b"x", b"12"), (b"only", b""))]
    for c, r in zip(kc, chk.run_impl(kc)):
        a, b = c[1]
        text = (b"Source: " + a + b"\n" if a else b"") + (b"Size: " + b + b"\n" if b else b"")
        want = "ok x%s x%s x%s x%s x%s 3" % (text.hex(), a.hex(), b.hex(), b"disk".hex(), b"/srv/incoming".hex())
        if r != want:
            chk.violate({"kind": "property", "case": lib.show_case(c), "impl": r[:300], "expected": want,
                         "explanation": "a skipped (control:\"-\") struct-typed field was written, or was filled in / tripped over by the decoder"})
    # LONG values: a single line of 4095 ... 131072 bytes in a string field, in a multi-line field (between short lines), in a
    # joined list and in an unknown field of the embedded paragraph round-trips like any other (implementation only: the
    # extracted model's list reversal is quadratic)
    lc, lw = [], []
    fields = PROBES["probe_scalars"]
    for n in (4095, 4096, 4097, 65535, 65536, 65537, 70000, 131072):
        for where in ("str", "text", "unknown"):
            long_line = bytes(rng.choice(b"abcdefghij klmnop.:-") for _ in range(n - 2)).replace(b"  ", b" x")
            long_line = b"L" + long_line.strip() + b"E"
            found = [(b"X-Big", long_line)] if where == "unknown" else []
            args = [b"probe_scalars", len(found)]
            for k, v in found:
                args += [k, v]
            want = {}
            for (gname, key, kind, flags) in fields:
                a, c, v = gen_field(rng, kind)
                if where == "str" and gname == "Name":
                    a, c, v = long_line, hx(long_line), long_line
                if where == "text" and gname == "Text":
                    v = b"first line\n" + long_line + b"\nlast line"
                    a, c = v, hx(v)
                if kind == "text" and v != b"":
                    c = hx(v + b"\n")
                args.append(a); want[gname] = c
            lc.append(("croundtrip", args)); lw.append((want, long_line if where == "unknown" else None))
    li = chk.run_impl(lc)
    chk.record("long-values", lc, li, lambda c, r: r.startswith("ok"))
    for c, i, (want, unk) in zip(lc, li, lw):
        parts = i.split(" ", 3)
        why = None
        if len(parts) < 4 or parts[0] != "ok" or parts[2] != "ok":
            why = "marshalling or unmarshalling a value with a long line failed (%s)" % i[:60]
        else:
            got = dict(kv.split("=", 1) for kv in split_record(parts[3]))
            for g, cn in want.items():
                if got.get(g) != cn:
                    why = "field %s with a long line does not round-trip (%d bytes came back, %d expected)" % (g, (len(got.get(g, "x")) - 1) // 2, (len(cn) - 1) // 2)
            if unk is not None and (b"X-Big: " + unk + b"\n") not in bytes.fromhex(parts[1][1:]):
                why = "an unknown field with a long line was not re-emitted unchanged"
        if why:
            chk.violate({"kind": "property", "case": lib.show_case((c[0], [a if not isinstance(a, bytes) or len(a) < 200 else a[:60] + b"...<%d bytes>" % len(a) for a in c[1]])),
                         "impl": i[:300], "explanation": why})
    # Paragraph.Set / Paragraph.Update on their own: receiver and other built by Set from key/value pairs with repeated and
    # shared keys; the expectation is computed here from the definition (receiver's fields first, other's new fields after,
    # other's values win), and the harness also checks that Update leaves its operands alone and that results share no state
    uc, uw = [], []
    KEYS = [b"A", b"B", b"C", b"Package", b"X-1", b"a", b"Source", b"Zz-Later"]
    for _ in range(chk.n(1500, 30000)):
        np_, nq = rng.randrange(0, 6), rng.randrange(0, 6)
        pairs = [(rng.choice(KEYS), rng.choice([b"", b"1", b"two words", b"v%d" % rng.randrange(9)])) for _ in range(np_ + nq)]
        args = [np_]
        for k, v in pairs:
            args += [k, v]
        uc.append(("pupdate", args))
        def build(kvs):
            order, vals = [], {}
            for k, v in kvs:
                if k not in vals:
                    order.append(k)
                vals[k] = v
            return order, vals
        po, pv_ = build(pairs[:np_]); qo, qv = build(pairs[np_:])
        ro = po + [k for k in qo if k not in pv_]
        rv = dict(pv_); rv.update(qv)
        sl = lambda items: "[ " + " ".join(items) + " ]" if items else "[]"
        uw.append("( %s %s %d )" % (sl([hx(k) for k in ro]), sl([hx(rv[k]) for k in ro]), len(rv)))
    ui_, um_ = chk.run_both(uc)
    chk.compare("paragraph-set-update", uc, ui_, um_, nontrivial=lambda c, r: True)
    for c, i, w in zip(uc, ui_, uw):
        if i != w:
            chk.violate({"kind": "property", "case": lib.show_case(c), "impl": i[:600], "expected": w,
                         "explanation": "Paragraph.Update did not give the receiver's fields followed by the other's new fields with the other's values winning, or changed its operands"})
    # optional fields held through POINTERS (nil = absent): marshalling never panics, a nil pointer writes nothing, a
    # non-nil one writes the value's own rendering (the decoder does not fill pointer fields, so no round trip here)
    pc, pw = [], []
    for _ in range(chk.n(400, 8000)):
        mask = "".join(rng.choice("01") for _ in range(5))
        ver = rng.choice([b"1.0-1", b"2:0.9~rc1", b"3"]); dep = rng.choice([b"foo (>= 1.0), bar | baz [amd64]", b"libc6"]); arch = rng.choice([b"amd64", b"linux-any", b"any"])
        text = rng.choice([b"hello", b"two words", b""]); num = str(rng.choice([0, 7, -3])).encode()
        pc.append(("cptr", [mask.encode(), ver, dep, arch, text, num]))
        want = b"Package: foo\n"
        if mask[0] == "1":
            want += b"Version: " + ver + b"\n"
        if mask[1] == "1":
            want += b"Depends: " + dep + b"\n"
        if mask[2] == "1":
            want += b"Architecture: " + arch + b"\n"
        if mask[3] == "1" and text:
            want += b"X-Comment: " + text + b"\n"
        if mask[4] == "1":
            want += b"Count: " + num + b"\n"
        want += b"Section: misc\n"
        pw.append("ok " + hx(want))
    pi = chk.run_impl(pc)
    chk.record("pointer-fields", pc, pi)
    for c, i, w in zip(pc, pi, pw):
        if i != w:
            chk.violate({"kind": "property", "case": lib.show_case(c), "impl": i[:600], "expected": w[:600],
                         "explanation": "marshalling a struct whose optional fields are pointers panicked, failed, or did not write exactly the non-nil fields" if i != "panic"
                         else "marshalling a supported type panicked (nil pointer field)"})
    # required field absent on input is an error; decoding of arbitrary documents agrees with the model
    docs = []
    for tname, fields in PROBES.items():
        req = [f for f in fields if f[3].get("required")]
        for c, i, (tn, found, vals) in zip(cases, impl, metas):
            if tn != tname or not i.startswith("ok") or rng.random() > 0.25:
                continue
            text = bytes.fromhex(i.split(" ", 3)[1][1:])
            docs.append((tname, text, None))
            for f in req:
                lines = [l for l in text.split(b"\n") if l.split(b":", 1)[0].lower() != f[1].encode().lower()]       # (in any letter case)
                docs.append((tname, b"\n".join(lines), f[1]))
            docs.append((tname, gen.mutate(rng, text, [b"\n", b" ", b":", b",", b"x", b"-", b"1", b"yes", b"|"]), None))
    ucases = [("cunmarshal", [t.encode(), text]) for t, text, _ in docs]
    ui, um = chk.run_both(ucases)
    chk.compare("unmarshal-documents", ucases, ui, um, spec=False)
    for c, i, (t, text, missing) in zip(ucases, ui, docs):
        if missing and i != "err":
            chk.violate({"kind": "property", "case": lib.show_case(c), "impl": i[:800],
                         "explanation": "the required field %s is absent, yet unmarshalling did not fail" % missing})
    chk.extra["schema_regenerated_changed"] = chk.schema_changed
    chk.assumptions += ["reflection is abstracted to the regenerated field descriptors (kind, key, required, multiline, delim, strip)",
                        "multi-line strings are compared up to the one trailing newline the reader adds (C08)",
                        "pointer fields are not a supported kind (the decoder rejects them)"]


def split_record(s):
    """'A=x B=[ a b ] C=( .. )' -> ['A=x', 'B=[ a b ]', ...]"""
    out, cur = [], []
    for tok in s.split(" "):
        if "=" in tok and not tok.startswith(("x", "(", "[", ")", "]", "{", "}")) and tok.split("=", 1)[0].isidentifier():
            if cur:
                out.append(" ".join(cur))
            cur = [tok]
        else:
            cur.append(tok)
    if cur:
        out.append(" ".join(cur))
    return out


def replay(chk, d):
    c = lib.case_from_replay(d)
    i, m = chk.run_both([c])
    print("impl:", i[0][:500], "model:", m[0][:500])
    return 1 if i[0] != m[0] else 0
