(* C17: the same changelog without its final newline (the last trailer line ends the text) *)
From Coq Require Import List Ascii String Bool Arith Lia.
Require Import GS R2 R6 CL CL2.
Import ListNotations.

Section Open.
  Variables V T : Type.
  Variable parse_version : str -> option V.
  Variable parse_date : str -> option T.

  Lemma doc0_last es : es <> [] -> exists ls a, doc V T es 0 = ls ++ [a] /\ a <> [].
  Proof.
    intros NE. destruct (exists_last NE) as (es'&e&->). unfold doc. cbn [repeat]. rewrite app_nil_r, map_app, concat_app.
    cbn [map List.concat]. rewrite app_nil_r. unfold elines at 2.
    exists (List.concat (map (elines V T) es') ++ repeat [] (r_blanks V T e) ++ header_line V T e :: r_body V T e), (trailer_line V T e).
    split; [|unfold trailer_line; discriminate].
    rewrite <- !app_assoc. cbn [app]. reflexivity.
  Qed.

  Theorem C17_parse_text_open es : es <> [] -> Forall (rentry_ok V T parse_version parse_date) es ->
    Forall (free nl) (doc V T es 0) ->
    CL.parse V T parse_version parse_date (join [nl] (doc V T es 0)) = Some (map (entry_val V T) es).
  Proof.
    intros NE W F. unfold CL.parse. cbv zeta. destruct (doc0_last es NE) as (ls&a&E&Ha).
    assert (L : lines_of (join [nl] (doc V T es 0)) = doc V T es 0) by (rewrite E in F |- *; exact (lines_of_join_open ls a Ha F)).
    rewrite L.
    apply C17_parse_render; [exact W|]. pose proof (doc_len V T es 0). lia.
  Qed.
End Open.
Print Assumptions C17_parse_text_open.
