(* C20, histories: a second operation through the SAME handle.  DSC.Copy / Move (and Changes) set the handle's
   Filename to the new location when they succeed; a later Remove therefore acts in the destination. *)
From Coq Require Import List Ascii String Bool Arith Lia.
Require Import GS U20 U20b U20c.
Import ListNotations.

Section History.
  Variable fault : nat -> bool.
  Notation remove_file := (remove_file fault).
  Notation rm := (fun (src _ : entry) => remove_file src).

  Definition retarget (h : handle) (dest : str) : handle := {| h_dir := dest; h_file := h_file h; h_listed := h_listed h |}.
  (* the handle after an operation: it follows the files only when the operation succeeded *)
  Definition after (h : handle) (dest : str) (ok : bool) : handle := if ok then retarget h dest else h.

  Lemma get_del_none e d f : fs_get e f = None -> fs_get e (fs_del d f) = None.
  Proof.
    induction f as [|[k v] r IH]; cbn; [reflexivity|]. destruct (entry_eqb k e) eqn:K; [discriminate|].
    intros H. destruct (entry_eqb k d); [now apply IH|]. cbn. rewrite K. now apply IH.
  Qed.
  Lemma remove_gone e x x' : remove_file e x = (x', true) -> fs_get e (fs x') = None.
  Proof.
    unfold U20.remove_file, step. cbn [fs log tick]. destruct (fs_get e (fs x)); [|discriminate].
    destruct (fault (tick x)); [discriminate|]. intros E. inversion E; subst. cbn [fs]. apply get_del.
  Qed.
  Lemma remove_keeps_none e e' x x' ok : remove_file e x = (x', ok) -> fs_get e' (fs x) = None -> fs_get e' (fs x') = None.
  Proof.
    unfold U20.remove_file, step. cbn [fs log tick]. destruct (fs_get e (fs x)); [|intros E; now inversion E].
    destruct (fault (tick x)); intros E; inversion E; subst; cbn [fs]; [auto|]. apply get_del_none.
  Qed.
  Lemma each_keeps_none : forall names dir e' x x' ok, each rm dir [] names x = (x', ok) -> fs_get e' (fs x) = None -> fs_get e' (fs x') = None.
  Proof.
    induction names as [|n r IH]; intros dir e' x x' ok E N; cbn [each] in E; [inversion E; now subst|].
    destruct (remove_file (dir, n) x) as [x1 ok1] eqn:O. pose proof (remove_keeps_none _ e' _ _ _ O N) as N1.
    destruct ok1; [now apply (IH dir e' x1 x' ok)|inversion E; now subst].
  Qed.
  Lemma each_gone : forall names dir x x', each rm dir [] names x = (x', true) -> forall n, In n names -> fs_get (dir, n) (fs x') = None.
  Proof.
    induction names as [|m r IH]; intros dir x x' E n Hn; [contradiction|]. cbn [each] in E.
    destruct (remove_file (dir, m) x) as [x1 ok1] eqn:O. destruct ok1; [|discriminate].
    destruct Hn as [<-|Hn]; [|now apply (IH dir x1)].
    apply (each_keeps_none r dir _ x1 x' true E). now apply (remove_gone _ x).
  Qed.

  (* every entry a removal touches is a listed plain name, or the control file, in the handle's own directory *)
  Theorem C20_remove_confined h x x' ok : do_remove fault h x = (x', ok) ->
    exists ext, log x' = log x ++ ext /\
      forall ev, In ev ext -> exists n, (n = h_file h \/ In n (h_listed h) /\ plain n = true) /\ ev = EvRemove (h_dir h, n).
  Proof.
    unfold do_remove. destruct (listed_ok h) eqn:P; cbn [negb].
    2:{ intros E. inversion E; subst. exists []. rewrite app_nil_r. split; [reflexivity|contradiction]. }
    destruct (each rm (h_dir h) [] (h_listed h) x) as [x1 ok1] eqn:EA.
    destruct (each_remove fault _ _ _ _ _ EA) as (e1&L1&A1&_&_).
    assert (A1' : forall ev, In ev e1 -> exists n, (n = h_file h \/ In n (h_listed h) /\ plain n = true) /\ ev = EvRemove (h_dir h, n)).
    { intros ev Hin. destruct (A1 ev Hin) as (n&Hn&->). exists n. split; [right; split; [exact Hn|]|reflexivity].
      apply listed_ok_plain in P. rewrite forallb_forall in P. now apply P. }
    destruct ok1.
    - intros O. destruct (remove_log fault _ _ _ _ O) as (e2&L2&A2&_&_). exists (e1 ++ e2). rewrite L2, L1, <- app_assoc.
      split; [reflexivity|]. intros ev Hin. apply in_app_or in Hin as [Hin|Hin]; [now apply A1'|].
      exists (h_file h). split; [now left|now apply A2].
    - intros E. inversion E; subst. exists e1. split; [exact L1|exact A1'].
  Qed.

  (* entries of other directories are untouched by a removal *)
  Theorem C20_remove_frame h x x' ok e' : do_remove fault h x = (x', ok) -> fst e' <> h_dir h -> fs_get e' (fs x') = fs_get e' (fs x).
  Proof.
    intros R Hd. assert (Ne : forall n, entry_eqb (h_dir h, n) e' = false).
    { intros n. destruct e' as [d m]. apply entry_neq_fst. cbn in Hd. congruence. }
    unfold do_remove in R. destruct (negb (listed_ok h)); [inversion R; now subst|].
    destruct (each rm (h_dir h) [] (h_listed h) x) as [x1 ok1] eqn:EA.
    destruct (each_remove fault _ _ _ _ _ EA) as (_&_&_&_&F1).
    rewrite <- (F1 e') by (intros n _; apply Ne).
    destruct ok1; [|inversion R; now subst]. apply (remove_frame fault _ _ _ _ e' R). apply Ne.
  Qed.

  (* a successful removal leaves neither the control file nor any listed file behind *)
  Theorem C20_remove_success h x x' : ~ In (h_file h) (h_listed h) -> do_remove fault h x = (x', true) ->
    forall n, In n (h_file h :: h_listed h) -> fs_get (h_dir h, n) (fs x') = None.
  Proof.
    intros Hnot. unfold do_remove. destruct (negb (listed_ok h)); [discriminate|].
    destruct (each rm (h_dir h) [] (h_listed h) x) as [x1 ok1] eqn:EA. destruct ok1; [|discriminate].
    intros R n [<-|Hn]; [now apply (remove_gone _ x1)|].
    apply (remove_keeps_none _ _ _ _ _ R). now apply (each_gone _ _ _ _ EA).
  Qed.

  (* HISTORY copy ; remove through the same handle: the copies in the destination are deleted, every original is
     still in place with its content, and nothing outside the destination is touched by the removal *)
  Theorem C20_copy_then_remove h dest x x1 x2 : h_dir h <> dest -> NoDup (h_listed h) -> ~ In (h_file h) (h_listed h) ->
    do_copy fault h dest x = (x1, true) -> do_remove fault (after h dest true) x1 = (x2, true) ->
    forall n, In n (h_file h :: h_listed h) ->
      fs_get (dest, n) (fs x2) = None /\ fs_get (h_dir h, n) (fs x2) = fs_get (h_dir h, n) (fs x) /\ fs_get (h_dir h, n) (fs x) <> None.
  Proof.
    intros Hd ND Hnot C R n Hn. cbn [after] in R.
    destruct (C20_copy_identical fault h dest x x1 Hd ND Hnot C n Hn) as (_&NE&Same).
    split; [|split; [|exact NE]].
    - exact (C20_remove_success (retarget h dest) x1 x2 Hnot R n Hn).
    - rewrite <- Same. apply (C20_remove_frame (retarget h dest) x1 x2 true (h_dir h, n) R). cbn. exact Hd.
  Qed.

  (* a failed first operation leaves the handle where it was: a later removal acts on the source directory *)
  Theorem C20_failed_operation_keeps_handle h dest : after h dest false = h.
  Proof. reflexivity. Qed.
End History.
Print Assumptions C20_remove_confined.
Print Assumptions C20_copy_then_remove.
