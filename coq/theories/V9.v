(* C03: the rejection classes, each for every string of its shape *)
From Coq Require Import List Ascii String Bool Arith NArith ZArith Lia.
Require Import GS V3 V4.
Import ListNotations.

(* Parse after trimming, on a non-empty text without whitespace *)
Definition core_rest (e : N) (rest : str) : option version :=
  if str_eqb rest [] then None
  else
    let '(up, rv) := match cut_last minus rest with Some (a, b) => (a, b) | None => (rest, []) end in
    match up with
    | [] => None
    | c :: _ =>
        if negb (is_digit c) then None
        else if negb (forallb ok_up up) then None
        else if negb (forallb ok_rev rv) then None
        else Some {| epoch := e; upstream := up; revision := rv |}
    end.
Definition parse_core (t : str) : option version :=
  let ep := match cut_first colon [] t with
            | Some (e, rest) => option_map (fun n => (n, rest)) (parse_epoch e)
            | None => Some (0%N, t)
            end in
  match ep with None => None | Some (e, rest) => core_rest e rest end.

Lemma parse_wrapped w1 t w2 : all_space w1 -> all_space w2 -> t <> [] -> forallb nosp t = true ->
  parse (w1 ++ t ++ w2) = parse_core t.
Proof.
  intros H1 H2 Hne Hn. unfold parse. rewrite (trim_space_wrap w1 t w2 H1 H2 Hne Hn).
  destruct (nosp_trim t Hn) as [_ E]. rewrite E. destruct (str_eqb_spec t []); [contradiction|reflexivity].
Qed.

(* ---- shapes of cut_first / cut_last results ---- *)
Lemma cut_first_spec d : forall x cur a b, cut_first d cur x = Some (a, b) ->
  exists w, a = rev cur ++ w /\ x = w ++ d :: b /\ free d w.
Proof.
  induction x as [|c r IH]; intros cur a b; cbn [cut_first]; [discriminate|].
  destruct (ceq_spec c d) as [->|Hc].
  - intros E. inversion E; subst. exists []. rewrite app_nil_r. repeat split. constructor.
  - intros E. destruct (IH _ _ _ E) as (w&Ea&Ex&F). exists (c :: w). cbn [rev] in Ea. rewrite <- app_assoc in Ea.
    repeat split; [exact Ea|now rewrite Ex|constructor; assumption].
Qed.
Lemma cut_last_spec d x a b : cut_last d x = Some (a, b) -> x = a ++ d :: b /\ free d b.
Proof.
  unfold cut_last. destruct (cut_first d [] (rev x)) as [[a0 b0]|] eqn:E; [|discriminate].
  intros H. inversion H; subst. destruct (cut_first_spec d _ _ _ _ E) as (w&Ea&Ex&F). cbn in Ea. subst a0.
  split.
  - rewrite <- (rev_involutive x), Ex, rev_app_distr. cbn [rev]. now rewrite <- app_assoc.
  - now apply free_rev.
Qed.


Lemma core_colon e r : free colon e ->
  parse_core (e ++ colon :: r) = match parse_epoch e with None => None | Some n => core_rest n r end.
Proof.
  intros F. unfold parse_core. rewrite (cut_first_word colon e [] r F). cbn [rev app].
  destruct (parse_epoch e); reflexivity.
Qed.
Lemma core_nocolon t : free colon t -> parse_core t = core_rest 0 t.
Proof. intros F. unfold parse_core. now rewrite (cut_first_none colon t [] F). Qed.

Lemma forallb_false (P : ascii -> bool) x c : In c x -> P c = false -> forallb P x = false.
Proof.
  intros Hin Hc. destruct (forallb P x) eqn:E; [|reflexivity]. rewrite forallb_forall in E. rewrite (E c Hin) in Hc. discriminate.
Qed.

(* ---- the part after the epoch ---- *)
Theorem rest_empty e : core_rest e [] = None.
Proof. reflexivity. Qed.

Theorem rest_first_not_digit e c r : is_digit c = false -> core_rest e (c :: r) = None.
Proof.
  intros D. unfold core_rest. destruct (str_eqb_spec (c :: r) []); [reflexivity|].
  destruct (cut_last minus (c :: r)) as [[a b]|] eqn:E.
  - destruct (cut_last_spec _ _ _ _ E) as [Ex _]. destruct a as [|c' a']; [reflexivity|].
    cbn in Ex. inversion Ex; subst. now rewrite D.
  - now rewrite D.
Qed.

Lemma ok_rev_up c : ok_rev c = true -> ok_up c = true.
Proof. intros H. unfold ok_up. now rewrite H. Qed.

Theorem rest_outside_alphabet e rest c : In c rest -> ok_up c = false -> core_rest e rest = None.
Proof.
  intros Hin Hc. unfold core_rest. destruct (str_eqb rest []); [reflexivity|].
  destruct (cut_last minus rest) as [[a b]|] eqn:E.
  - destruct (cut_last_spec _ _ _ _ E) as [Ex _]. subst rest. destruct a as [|c' a']; [reflexivity|].
    destruct (negb (is_digit c')); [reflexivity|].
    apply in_app_or in Hin as [Hin|[<-|Hin]].
    + now rewrite (forallb_false ok_up _ c Hin Hc).
    + discriminate Hc.
    + destruct (negb (forallb ok_up (c' :: a'))); [reflexivity|].
      assert (Hr : ok_rev c = false) by (destruct (ok_rev c) eqn:R; [apply ok_rev_up in R; congruence|reflexivity]).
      now rewrite (forallb_false ok_rev _ c Hin Hr).
  - destruct rest as [|c' r']; [reflexivity|]. destruct (negb (is_digit c')); [reflexivity|].
    now rewrite (forallb_false ok_up _ c Hin Hc).
Qed.

(* a colon (or anything else outside the revision alphabet) after the last hyphen *)
Theorem rest_bad_revision e a b c : free minus b -> In c b -> ok_rev c = false -> core_rest e (a ++ minus :: b) = None.
Proof.
  intros F Hin Hc. unfold core_rest. destruct (str_eqb (a ++ minus :: b) []); [reflexivity|].
  rewrite (cut_last_split minus a b F). destruct a as [|c' a']; [reflexivity|].
  destruct (negb (is_digit c')); [reflexivity|]. destruct (negb (forallb ok_up (c' :: a'))); [reflexivity|].
  now rewrite (forallb_false ok_rev _ c Hin Hc).
Qed.

(* ---- the epoch ---- *)
Lemma dv_nondigit : forall x a c, In c x -> is_digit c = false -> dv a x = None.
Proof.
  induction x as [|y x IH]; intros a c Hin Hc; [contradiction|]. cbn [dv]. destruct Hin as [->|Hin].
  - now rewrite Hc.
  - destruct (is_digit y); [now apply (IH _ c)|reflexivity].
Qed.

Theorem epoch_empty : parse_epoch [] = None.
Proof. reflexivity. Qed.
(* an epoch is a run of digits: ANY other character, anywhere - a sign in front included - rejects *)
Theorem epoch_nonnumeric x c : In c x -> is_digit c = false -> parse_epoch x = None.
Proof.
  intros Hin Hc. unfold parse_epoch. destruct x as [|c0 r]; [reflexivity|].
  now rewrite (dv_nondigit (c0 :: r) 0%N c Hin Hc).
Qed.
Theorem epoch_nonnumeric_tail c0 r c : In c r -> is_digit c = false -> parse_epoch (c0 :: r) = None.
Proof. intros Hin Hc. apply (epoch_nonnumeric (c0 :: r) c); [now right|exact Hc]. Qed.
Theorem epoch_nonnumeric_head c0 r : is_digit c0 = false -> parse_epoch (c0 :: r) = None.
Proof. intros Hc. apply (epoch_nonnumeric (c0 :: r) c0); [now left|exact Hc]. Qed.
Theorem epoch_sign_only c0 : parse_epoch [c0] = None \/ is_digit c0 = true.
Proof. destruct (is_digit c0) eqn:D; [now right|left]. now apply epoch_nonnumeric_head. Qed.
(* no sign is an epoch: "-1:", "-0:" and "+1:" alike *)
Theorem epoch_signed ds : parse_epoch (minus :: ds) = None /\ parse_epoch (plus :: ds) = None.
Proof. split; apply epoch_nonnumeric_head; reflexivity. Qed.
Theorem epoch_oversized c r n : dv 0 (c :: r) = Some n -> (max_epoch < n)%N -> parse_epoch (c :: r) = None.
Proof.
  intros Hd Hn. unfold parse_epoch.
  assert (Gt : (n <=? max_epoch)%N = false) by (apply N.leb_gt; exact Hn). now rewrite Hd, Gt.
Qed.
(* and every run of digits within the field's range IS an epoch, with exactly its value *)
Theorem epoch_accepted c r n : dv 0 (c :: r) = Some n -> (n <= max_epoch)%N -> parse_epoch (c :: r) = Some n.
Proof.
  intros Hd Hn. unfold parse_epoch. assert (Le : (n <=? max_epoch)%N = true) by (apply N.leb_le; exact Hn). now rewrite Hd, Le.
Qed.

(* ---- C03, rejections, assembled: t is the text between the surrounding blanks ---- *)
Theorem C03_reject_bad_epoch w1 w2 e r : all_space w1 -> all_space w2 -> forallb nosp (e ++ colon :: r) = true ->
  free colon e -> parse_epoch e = None -> parse (w1 ++ (e ++ colon :: r) ++ w2) = None.
Proof.
  intros H1 H2 Hn F E. rewrite parse_wrapped by (auto; destruct e; discriminate). now rewrite (core_colon e r F), E.
Qed.
Theorem C03_reject_nothing_after_colon w1 w2 e : all_space w1 -> all_space w2 -> forallb nosp (e ++ [colon]) = true ->
  free colon e -> parse (w1 ++ (e ++ [colon]) ++ w2) = None.
Proof.
  intros H1 H2 Hn F. rewrite parse_wrapped by (auto; destruct e; discriminate). rewrite (core_colon e [] F).
  destruct (parse_epoch e); reflexivity.
Qed.
Theorem C03_reject_first_char w1 w2 e c r : all_space w1 -> all_space w2 -> forallb nosp (e ++ colon :: c :: r) = true ->
  free colon e -> is_digit c = false -> parse (w1 ++ (e ++ colon :: c :: r) ++ w2) = None.
Proof.
  intros H1 H2 Hn F D. rewrite parse_wrapped by (auto; destruct e; discriminate). rewrite (core_colon e _ F).
  destruct (parse_epoch e); [apply rest_first_not_digit; exact D|reflexivity].
Qed.
Theorem C03_reject_first_char_noepoch w1 w2 c r : all_space w1 -> all_space w2 -> forallb nosp (c :: r) = true ->
  free colon (c :: r) -> is_digit c = false -> parse (w1 ++ (c :: r) ++ w2) = None.
Proof.
  intros H1 H2 Hn F D. rewrite parse_wrapped by (auto; discriminate). rewrite (core_nocolon _ F). now apply rest_first_not_digit.
Qed.
Theorem C03_reject_alphabet w1 w2 t c : all_space w1 -> all_space w2 -> t <> [] -> forallb nosp t = true ->
  In c t -> ok_up c = false -> parse (w1 ++ t ++ w2) = None.
Proof.
  intros H1 H2 Hne Hn Hin Hc. rewrite parse_wrapped by auto. unfold parse_core.
  destruct (cut_first colon [] t) as [[e rest]|] eqn:E.
  - destruct (cut_first_spec _ _ _ _ _ E) as (w&Ea&Ex&F). cbn in Ea. subst e.
    destruct (parse_epoch w) as [n|] eqn:Pe; [|reflexivity]. cbn [option_map].
    subst t. apply in_app_or in Hin as [Hin|[<-|Hin]].
    + (* a character of the epoch outside the alphabet is not a digit, and not a sign either *)
      exfalso. assert (Dg : is_digit c = false).
      { destruct (is_digit c) eqn:D; [|reflexivity]. pose proof (digit_facts c) as Fc. rewrite D in Fc. cbn [negb orb] in Fc.
        repeat (apply andb_true_iff in Fc as [Fc ?]). congruence. }
      destruct w as [|c0 r0]; [contradiction|]. destruct Hin as [->|Hin].
      * rewrite (epoch_nonnumeric_head c r0 Dg) in Pe. discriminate.
      * rewrite (epoch_nonnumeric_tail c0 r0 c Hin Dg) in Pe. discriminate.
    + discriminate Hc.
    + now apply (rest_outside_alphabet n rest c).
  - now apply (rest_outside_alphabet 0%N t c).
Qed.
Print Assumptions C03_reject_alphabet.
Print Assumptions C03_reject_bad_epoch.
Print Assumptions epoch_oversized.
