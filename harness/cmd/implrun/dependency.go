package main

import (
	"strings"

	"pault.ag/go/debian/dependency"
	"pault.ag/go/debian/version"
)

func showArch(a dependency.Arch) string { return hx(a.ABI) + " " + hx(a.OS) + " " + hx(a.CPU) }

func showArchSet(s dependency.ArchSet) string {
	items := []string{}
	for _, a := range s.Architectures {
		items = append(items, "( "+showArch(a)+" )")
	}
	return showBool(s.Not) + " " + showList(items)
}

func showPossi(p dependency.Possibility) string {
	parts := []string{"{", hx(p.Name)}
	if p.Arch != nil {
		parts = append(parts, showOpt(true, showArch(*p.Arch)))
	} else {
		parts = append(parts, "-")
	}
	if p.Architectures != nil {
		parts = append(parts, showOpt(true, showArchSet(*p.Architectures)))
	} else {
		parts = append(parts, "-")
	}
	sets := []string{}
	for _, ss := range p.StageSets {
		st := []string{}
		for _, s := range ss.Stages {
			st = append(st, "( "+showBool(s.Not)+" "+hx(s.Name)+" )")
		}
		sets = append(sets, showList(st))
	}
	parts = append(parts, showList(sets))
	if p.Version != nil {
		parts = append(parts, showOpt(true, hx(p.Version.Operator)+" "+hx(p.Version.Number)))
	} else {
		parts = append(parts, "-")
	}
	parts = append(parts, showBool(p.Substvar), "}")
	return strings.Join(parts, " ")
}

func showPossis(ps []dependency.Possibility) string {
	items := []string{}
	for _, p := range ps {
		items = append(items, showPossi(p))
	}
	return showList(items)
}

func showDep(d *dependency.Dependency) string {
	rels := []string{}
	for _, r := range d.Relations {
		rels = append(rels, showPossis(r.Possibilities))
	}
	return showList(rels)
}

func showDres(d *dependency.Dependency, err error) string {
	if err != nil {
		if d != nil {
			return "err-with-value"
		}
		return "err"
	}
	if d == nil {
		return "ok-nil"
	}
	return "ok " + showDep(d)
}

func mkArch(a []string, i int) dependency.Arch {
	return dependency.Arch{ABI: arg(a, i), OS: arg(a, i+1), CPU: arg(a, i+2)}
}

func init() {
	ops["dparse"] = func(a []string) string { return showDres(dependency.Parse(arg(a, 0))) }
	// dunmarshalerr text: a receiver that holds the parse of "keep (>= 1)" is handed a field through UnmarshalControl; when that
	// fails, what does the receiver hold next to the error?  "err <receiver>"; "ok" when the field parses
	ops["dunmarshalerr"] = func(a []string) string {
		var u dependency.Dependency
		if err := u.UnmarshalControl("keep (>= 1)"); err != nil {
			return "harness-error"
		}
		before := showDep(&u)
		if err := u.UnmarshalControl(arg(a, 0)); err != nil {
			switch after := showDep(&u); {
			case after == before:
				return "err unchanged"
			case len(u.Relations) == 0:
				return "err empty"
			default:
				return "err holds " + after
			}
		}
		return "ok"
	}
	// dtwice text: Parse, Parse again, then UnmarshalControl - three answers for one text in one process
	ops["dtwice"] = func(a []string) string {
		one := func() string {
			d, err := dependency.Parse(arg(a, 0))
			if err != nil {
				return "err"
			}
			return "ok:" + showDep(d)
		}
		r1, r2 := one(), one()
		var u dependency.Dependency
		r3 := "err"
		if err := u.UnmarshalControl(arg(a, 0)); err == nil {
			r3 = "ok:" + showDep(&u)
		}
		return r1 + " " + r2 + " " + r3
	}
	// dalias text: Parse, then the caller edits EVERYTHING in the value it got (it is the caller's), then the byte-identical
	// text is parsed again - and once more through UnmarshalControl: both must be what the text denotes
	ops["dalias"] = func(a []string) string {
		d, err := dependency.Parse(arg(a, 0))
		if err != nil || d == nil {
			return showDres(d, err)
		}
		for i := range d.Relations {
			for _, p := range d.Relations[i].Possibilities {
				p.Name = "edited"
				p.Substvar = !p.Substvar
				if p.Arch != nil {
					p.Arch.CPU = "edited"
				}
				if p.Architectures != nil {
					p.Architectures.Not = !p.Architectures.Not
					for k := range p.Architectures.Architectures {
						p.Architectures.Architectures[k].OS = "edited"
					}
					p.Architectures.Architectures = append(p.Architectures.Architectures, dependency.Arch{CPU: "edited"})
				}
				if p.Version != nil {
					p.Version.Number = "0~edited"
					p.Version.Operator = "<<"
				}
				for k := range p.StageSets {
					for j := range p.StageSets[k].Stages {
						p.StageSets[k].Stages[j].Name = "edited"
						p.StageSets[k].Stages[j].Not = !p.StageSets[k].Stages[j].Not
					}
				}
			}
			if len(d.Relations[i].Possibilities) > 0 {
				d.Relations[i].Possibilities = d.Relations[i].Possibilities[:len(d.Relations[i].Possibilities)-1]
			}
		}
		second := showDres(dependency.Parse(arg(a, 0)))
		var u dependency.Dependency
		if err := u.UnmarshalControl(arg(a, 0)); err != nil {
			return second + " | err"
		}
		return second + " | ok " + showDep(&u)
	}
	ops["dstring"] = func(a []string) string {
		d, err := dependency.Parse(arg(a, 0))
		if err != nil {
			return "err"
		}
		return "ok " + hx(d.String())
	}
	ops["drt"] = func(a []string) string {
		d, err := dependency.Parse(arg(a, 0))
		if err != nil {
			return "err"
		}
		t := d.String()
		return "ok " + hx(t) + " " + showDres(dependency.Parse(t))
	}
	// the same through the control-field interface
	ops["dcontrol"] = func(a []string) string {
		var d dependency.Dependency
		if err := d.UnmarshalControl(arg(a, 0)); err != nil {
			return "err"
		}
		t, err := d.MarshalControl()
		if err != nil {
			return "marshal-err"
		}
		var e dependency.Dependency
		err = e.UnmarshalControl(t)
		if err != nil {
			return "ok " + hx(t) + " err"
		}
		return "ok " + hx(t) + " ok " + showDep(&e)
	}
	// dreuse a b: UnmarshalControl(b) into a receiver that already holds the parse of a - the result is the parse of b
	ops["dreuse"] = func(a []string) string {
		var d dependency.Dependency
		d.UnmarshalControl(arg(a, 0))
		if err := d.UnmarshalControl(arg(a, 1)); err != nil {
			return "err"
		}
		return "ok " + showDep(&d)
	}
	ops["areuse"] = func(a []string) string {
		var x dependency.Arch
		x.UnmarshalControl(arg(a, 0))
		if err := x.UnmarshalControl(arg(a, 1)); err != nil {
			return "err"
		}
		return showArch(x)
	}
	// aalias name other: what ParseArch (and the dependency parser) hand out belongs to the caller.  The caller edits the
	// value it got - sets a field, re-uses it as the receiver of another name - and the SAME name parsed afterwards, alone,
	// in an architecture list and as a qualifier, must still mean what it meant.
	ops["aalias"] = func(a []string) string {
		name, other := arg(a, 0), arg(a, 1)
		x, err := dependency.ParseArch(name)
		if err != nil {
			return "err"
		}
		d1, err := dependency.Parse("foo:" + name + " [" + name + " !" + name + "x] | bar [" + name + "]")
		if err == nil && d1 != nil {
			for _, r := range d1.Relations {
				for _, p := range r.Possibilities {
					if p.Arch != nil {
						p.Arch.ABI, p.Arch.OS, p.Arch.CPU = "edited", "edited", "edited"
					}
					if p.Architectures != nil {
						for k := range p.Architectures.Architectures {
							p.Architectures.Architectures[k].CPU = "edited"
						}
					}
				}
			}
		}
		x.ABI = "edited"
		x.UnmarshalControl(other)
		xs, err := dependency.ParseArchitectures(name + " " + other)
		if err == nil {
			for k := range xs {
				xs[k].OS = "edited"
			}
		}
		y, err := dependency.ParseArch(name)
		if err != nil {
			return "err-second"
		}
		ys, err := dependency.ParseArchitectures(name)
		if err != nil || len(ys) != 1 {
			return "err-list"
		}
		d2, err := dependency.Parse("foo:" + name + " [" + name + "]")
		if err != nil || d2 == nil || len(d2.Relations) != 1 || len(d2.Relations[0].Possibilities) != 1 {
			return "err-dep"
		}
		p := d2.Relations[0].Possibilities[0]
		if p.Arch == nil || p.Architectures == nil || len(p.Architectures.Architectures) != 1 {
			return "err-dep-shape"
		}
		return showArch(*y) + " | " + showArch(ys[0]) + " | " + showArch(*p.Arch) + " | " + showArch(p.Architectures.Architectures[0])
	}
	ops["aparse"] = func(a []string) string {
		x, err := dependency.ParseArch(arg(a, 0))
		if err != nil {
			if x != nil {
				// a value next to the error (once: the any-any-any wildcard, which matches every architecture)
				return "err-with-value"
			}
			return "err"
		}
		return showArch(*x)
	}
	ops["alist"] = func(a []string) string {
		xs, err := dependency.ParseArchitectures(arg(a, 0))
		if err != nil {
			if xs != nil {
				return "err-with-value"
			}
			return "err"
		}
		items := []string{}
		for _, x := range xs {
			items = append(items, "( "+showArch(x)+" )")
		}
		return "ok " + showList(items)
	}
	ops["astring"] = func(a []string) string { return hx(mkArch(a, 0).String()) }
	ops["art"] = func(a []string) string {
		x, err := dependency.ParseArch(arg(a, 0))
		if err != nil {
			return "err"
		}
		t := x.String()
		y, err := dependency.ParseArch(t)
		if err != nil {
			return showArch(*x) + " " + hx(t) + " err"
		}
		return showArch(*x) + " " + hx(t) + " " + showArch(*y)
	}
	// Arch.UnmarshalControl into a zero receiver, then MarshalControl
	ops["acontrol"] = func(a []string) string {
		var x dependency.Arch
		if err := x.UnmarshalControl(arg(a, 0)); err != nil {
			return "err"
		}
		t, _ := x.MarshalControl()
		var y dependency.Arch
		if err := y.UnmarshalControl(t); err != nil {
			return showArch(x) + " " + hx(t) + " err"
		}
		return showArch(x) + " " + hx(t) + " " + showArch(y)
	}
	ops["ais"] = func(a []string) string {
		x, y := mkArch(a, 0), mkArch(a, 3)
		return showBool(x.Is(&y))
	}
	ops["awild"] = func(a []string) string { x := mkArch(a, 0); return showBool(x.IsWildcard()) }
	ops["amatch"] = func(a []string) string {
		set := dependency.ArchSet{Not: arg(a, 0) == "1"}
		for i := 4; i+2 < len(a); i += 3 {
			set.Architectures = append(set.Architectures, mkArch(a, i))
		}
		t := mkArch(a, 1)
		return showBool(set.Matches(&t))
	}
	ops["dposs"] = func(a []string) string {
		d, err := dependency.Parse(arg(a, 0))
		if err != nil {
			return "err"
		}
		return "ok " + showPossis(d.GetPossibilities(mkArch(a, 1)))
	}
	// dpossnil abi os cpu name...: a Dependency built BY HAND - one relation whose alternatives are Possibility{Name: n} with no
	// architecture list at all (nil, which String() reads as "no restriction") - and a substvar the caller has resolved
	// (the parser leaves Architectures nil for substvars): GetPossibilities picks the first alternative
	ops["dpossnil"] = func(a []string) string {
		rel := dependency.Relation{}
		for _, n := range a[3:] {
			rel.Possibilities = append(rel.Possibilities, dependency.Possibility{Name: n})
		}
		d := dependency.Dependency{Relations: []dependency.Relation{rel}}
		first := showPossis(d.GetPossibilities(mkArch(a, 0)))
		p, err := dependency.Parse("${x} | other, tail")
		if err != nil {
			return "harness-error"
		}
		p.Relations[0].Possibilities[0].Name = "resolved"
		p.Relations[0].Possibilities[0].Substvar = false
		return first + " / " + showPossis(p.GetPossibilities(mkArch(a, 0)))
	}
	ops["dall"] = func(a []string) string {
		d, err := dependency.Parse(arg(a, 0))
		if err != nil {
			return "err"
		}
		return "ok " + showPossis(d.GetAllPossibilities())
	}
	ops["dsubst"] = func(a []string) string {
		d, err := dependency.Parse(arg(a, 0))
		if err != nil {
			return "err"
		}
		return "ok " + showPossis(d.GetSubstvars())
	}
	ops["vsat"] = func(a []string) string {
		vr := dependency.VersionRelation{Operator: arg(a, 0), Number: arg(a, 1)}
		v := version.Version{Epoch: argUint(arg(a, 2)), Version: arg(a, 3), Revision: arg(a, 4)}
		return showBool(vr.SatisfiedBy(v))
	}
	// vsatparsed op number epoch upstream revision: the relation comes out of the PARSER (for another operator and number) and
	// is then given this operator and number by the caller - on the parsed value itself and on a copy of it - before
	// SatisfiedBy is asked: the exported fields are what counts
	ops["vsatparsed"] = func(a []string) string {
		d, err := dependency.Parse("foo (>= 0~decoy), bar (<< 99:99)")
		if err != nil || d == nil || len(d.Relations) != 2 {
			return "harness-error"
		}
		v := version.Version{Epoch: argUint(arg(a, 2)), Version: arg(a, 3), Revision: arg(a, 4)}
		out := []string{}
		for _, r := range d.Relations {
			vr := r.Possibilities[0].Version
			if vr == nil {
				return "harness-error"
			}
			vr.Operator, vr.Number = arg(a, 0), arg(a, 1)
			cp := *vr
			out = append(out, showBool(vr.SatisfiedBy(v)), showBool(cp.SatisfiedBy(v)))
		}
		return strings.Join(out, " ")
	}
	// names as they reach Is(): parsed with ParseArch
	ops["aisnames"] = func(a []string) string {
		x, err := dependency.ParseArch(arg(a, 0))
		if err != nil {
			return "err"
		}
		y, err := dependency.ParseArch(arg(a, 1))
		if err != nil {
			return "err"
		}
		return showBool(x.Is(y)) + " " + showBool(y.Is(x))
	}
}
