package main

import (
	"bytes"
	"fmt"
	"io"
	"strconv"
	"strings"
	"testing/iotest"

	"pault.ag/go/debian/control"
	"pault.ag/go/debian/hashio"
)

func namesOf(x string) []string {
	if x == "-" {
		return []string{}
	}
	return strings.Split(x, ",")
}

func showHashers(hs []*hashio.Hasher) string {
	items := []string{}
	for _, h := range hs {
		items = append(items, fmt.Sprintf("( %s %d %s )", hx(h.Name()), h.Size(), hx(string(h.Sum(nil)))))
	}
	return showList(items)
}

func runVerifier(fh control.FileHash, chunks []string) string {
	v, err := fh.Verifier()
	if err != nil {
		return "error"
	}
	for _, c := range chunks {
		if n, err := v.Write([]byte(c)); err != nil || n != len(c) {
			return "write-error"
		}
	}
	if err := v.Close(); err != nil {
		return "reject"
	}
	return "accept"
}

func hwriteWith(a []string, mixed bool) string {
	var target bytes.Buffer
	names := namesOf(arg(a, 0))
	var w io.Writer
	var hs []*hashio.Hasher
	var err error
	if len(names) == 1 && strings.HasSuffix(names[0], "!") {
		// the single-hasher constructor
		var h *hashio.Hasher
		w, h, err = hashio.NewHasherWriter(strings.TrimSuffix(names[0], "!"), &target)
		hs = []*hashio.Hasher{h}
	} else {
		w, hs, err = hashio.NewHasherWriters(names, &target)
	}
	if err != nil {
		return "err"
	}
	for k, c := range a[1:] {
		var n int
		var err error
		switch {
		case mixed && k%3 == 2:
			n, err = fmt.Fprint(w, c)
		case mixed && k%2 == 1:
			n, err = io.WriteString(w, c)
		default:
			n, err = w.Write([]byte(c))
		}
		if err != nil || n != len(c) {
			return "write-error"
		}
	}
	return "ok " + showData(target.Bytes()) + " " + showHashers(hs)
}

// retainedDoc is a document type with list fields, decoded several times into ONE variable
type retainedDoc struct {
	Source          string
	Binaries        []string                 `control:"Binary" delim:"," strip:"\n\r\t "`
	ChecksumsSha256 []control.SHA256FileHash `control:"Checksums-Sha256" delim:"\n" strip:"\n\r\t "`
	ChecksumsSha512 []control.SHA512FileHash `control:"Checksums-Sha512" delim:"\n" strip:"\n\r\t "`
}

func showRetained(b []string, a []control.SHA256FileHash, c []control.SHA512FileHash) string {
	items := []string{}
	for _, x := range b {
		items = append(items, hx(x))
	}
	for _, x := range a {
		items = append(items, showFileHash(x.FileHash))
	}
	for _, x := range c {
		items = append(items, showFileHash(x.FileHash))
	}
	return showList(items)
}

func init() {
	// cretained text: every paragraph of the document is decoded, one after the other, into the SAME struct variable
	// (Decoder.Decode in a loop); the list values read from each paragraph are kept by the caller.  What was handed out for
	// an earlier paragraph must still be that paragraph's entries after the later ones were decoded.
	ops["cretained"] = func(a []string) string {
		dec, err := control.NewDecoder(strings.NewReader(arg(a, 0)), nil)
		if err != nil {
			return "err"
		}
		var v retainedDoc
		type kept struct {
			b     []string
			s256  []control.SHA256FileHash
			s512  []control.SHA512FileHash
			shown string
		}
		var all []kept
		for i := 0; i < 50; i++ {
			err := dec.Decode(&v)
			if err == io.EOF {
				break
			}
			if err != nil {
				return "err"
			}
			all = append(all, kept{v.Binaries, v.ChecksumsSha256, v.ChecksumsSha512, showRetained(v.Binaries, v.ChecksumsSha256, v.ChecksumsSha512)})
		}
		for i, k := range all {
			if showRetained(k.b, k.s256, k.s512) != k.shown {
				return "changed paragraph " + strconv.Itoa(i) + " was " + k.shown + " is " + showRetained(k.b, k.s256, k.s512)
			}
		}
		return "kept " + strconv.Itoa(len(all))
	}
	// hbare alg chunk...: a Hasher on its own (hashio.NewHasher) is an io.Writer too: fed with Write, io.WriteString and fmt.Fprint in
	// turn it reports the length and digest of everything it was given
	ops["hbare"] = func(a []string) string {
		h, err := hashio.NewHasher(arg(a, 0))
		if err != nil {
			return "err"
		}
		for k, c := range a[1:] {
			switch k % 3 {
			case 0:
				io.WriteString(h, c)
			case 1:
				h.Write([]byte(c))
			default:
				fmt.Fprint(h, c)
			}
		}
		return fmt.Sprintf("%d:%x", h.Size(), h.Sum(nil))
	}
	ops["hwrite"] = func(a []string) string { return hwriteWith(a, false) }
	// hwrites: the same stream, but every second chunk is handed over with io.WriteString (and fmt.Fprint for every
	// third): however the bytes are delivered to the writer, they are passed through, counted and hashed
	ops["hwrites"] = func(a []string) string { return hwriteWith(a, true) }

	// hwriteobs: as hwrite, but Size() and Sum(nil) of every hasher are also read after each Write: observing a
	// hasher in mid-stream must not disturb it, and what it reports then is the digest of the bytes so far
	ops["hwriteobs"] = func(a []string) string {
		var target bytes.Buffer
		w, hs, err := hashio.NewHasherWriters(namesOf(arg(a, 0)), &target)
		if err != nil {
			return "err"
		}
		mid := []string{}
		for _, c := range a[1:] {
			n, err := w.Write([]byte(c))
			if err != nil || n != len(c) {
				return "write-error"
			}
			mid = append(mid, showHashers(hs))
		}
		return "ok " + showData(target.Bytes()) + " " + showHashers(hs) + " | " + showList(mid)
	}
	// hread names data size size ...: read through the tee with buffers of the given sizes (cyclically)
	ops["hread"] = func(a []string) string {
		names := namesOf(arg(a, 0))
		var src io.Reader = bytes.NewReader([]byte(arg(a, 1)))
		// "name@dataerr": the source hands out its last bytes together with io.EOF (as gzip, bufio and network readers
		// do); "@onebyte" / "@half": short reads
		if k := strings.Index(arg(a, 0), "@"); k >= 0 {
			switch arg(a, 0)[k+1:] {
			case "dataerr":
				src = iotest.DataErrReader(src)
			case "onebyte":
				src = iotest.OneByteReader(src)
			case "half":
				src = iotest.HalfReader(src)
			}
			names = namesOf(arg(a, 0)[:k])
		}
		var r io.Reader
		var hs []*hashio.Hasher
		var err error
		if len(names) == 1 && strings.HasSuffix(names[0], "!") {
			var h *hashio.Hasher
			r, h, err = hashio.NewHasherReader(strings.TrimSuffix(names[0], "!"), src)
			hs = []*hashio.Hasher{h}
		} else {
			r, hs, err = hashio.NewHasherReaders(names, src)
		}
		if err != nil {
			return "err"
		}
		sizes := []int{}
		for _, s := range a[2:] {
			n, _ := strconv.Atoi(s)
			if n > 0 {
				sizes = append(sizes, n)
			}
		}
		if len(sizes) == 0 {
			sizes = []int{4096}
		}
		var got bytes.Buffer
		for i := 0; ; i++ {
			buf := make([]byte, sizes[i%len(sizes)])
			n, err := r.Read(buf)
			got.Write(buf[:n])
			if err == io.EOF {
				break
			}
			if err != nil {
				return "read-error"
			}
			if i > len(arg(a, 1))+10 {
				return "timeout"
			}
		}
		return "ok " + showData(got.Bytes()) + " " + showHashers(hs)
	}
	ops["hverify"] = func(a []string) string {
		return runVerifier(control.FileHash{Algorithm: arg(a, 0), Hash: arg(a, 1)}, a[3:])
	}
	// hverify2 alg hashA hashB dataA dataB: BOTH verifiers are created before either stream is written; the streams
	// are written alternately, one byte-run at a time; each verifier answers for its own stream only
	ops["hverify2"] = func(a []string) string {
		fa := control.FileHash{Algorithm: arg(a, 0), Hash: arg(a, 1), Filename: "a"}
		fb := control.FileHash{Algorithm: arg(a, 0), Hash: arg(a, 2), Filename: "b"}
		va, err := fa.Verifier()
		if err != nil {
			return "error"
		}
		vb, err := fb.Verifier()
		if err != nil {
			return "error"
		}
		da, db := []byte(arg(a, 3)), []byte(arg(a, 4))
		for len(da) > 0 || len(db) > 0 {
			k := 7
			if k > len(da) {
				k = len(da)
			}
			va.Write(da[:k])
			da = da[k:]
			k = 5
			if k > len(db) {
				k = len(db)
			}
			vb.Write(db[:k])
			db = db[k:]
		}
		res := func(err error) string {
			if err != nil {
				return "reject"
			}
			return "accept"
		}
		rb := res(vb.Close())
		ra := res(va.Close())
		return ra + " " + rb
	}
	ops["hparsed"] = func(a []string) string {
		var fh control.FileHash
		var err error
		switch arg(a, 0) {
		case "md5":
			var h control.MD5FileHash
			err = h.UnmarshalControl(arg(a, 1))
			fh = h.FileHash
		case "sha1":
			var h control.SHA1FileHash
			err = h.UnmarshalControl(arg(a, 1))
			fh = h.FileHash
		case "sha256":
			var h control.SHA256FileHash
			err = h.UnmarshalControl(arg(a, 1))
			fh = h.FileHash
		case "sha512":
			var h control.SHA512FileHash
			err = h.UnmarshalControl(arg(a, 1))
			fh = h.FileHash
		default:
			return "no-such-type"
		}
		if err != nil {
			return "parse-error"
		}
		return fmt.Sprintf("( %s %s %d %s ) %s", hx(fh.Algorithm), hx(fh.Hash), fh.Size, hx(fh.Filename), runVerifier(fh, a[3:]))
	}
	// FileHashFromHasher, then its own verifier on the same stream and on a different one
	ops["hfrom"] = func(a []string) string {
		h, err := hashio.NewHasher(arg(a, 0))
		if err != nil {
			return "err"
		}
		for _, c := range a[2:] {
			h.Write([]byte(c))
		}
		fh := control.FileHashFromHasher(arg(a, 1), *h)
		return fmt.Sprintf("( %s %s %d %s ) %s %s", hx(fh.Algorithm), hx(fh.Hash), fh.Size, hx(fh.Filename),
			runVerifier(fh, a[2:]), runVerifier(fh, append(append([]string{}, a[2:]...), "x")))
	}
	// best-checksum selector, then every returned entry's verifier on the given stream
	ops["hbest"] = func(a []string) string {
		var b control.BestChecksums
		if err := control.Unmarshal(&b, strings.NewReader(arg(a, 0))); err != nil {
			return "err"
		}
		items := []string{}
		for _, fh := range b.Checksums() {
			items = append(items, "( "+hx(fh.Algorithm)+" "+hx(fh.Filename)+" "+runVerifier(fh, a[1:])+" )")
		}
		return "ok " + showList(items)
	}
	// hpartial algs k stream: the target accepts at most k bytes per Write and reports the rest with an error (a full disk,
	// an expired deadline); the caller carries on with p[n:] until the stream is through.  The target then holds the stream,
	// and every hasher of NewHasherWriter / NewHasherWriters reports its length and digest: "size:digest ..." per constructor
	ops["hpartial"] = func(a []string) string {
		algs := strings.Fields(arg(a, 0))
		k, _ := strconv.Atoi(arg(a, 1))
		stream := []byte(arg(a, 2))
		run := func(w io.Writer, sink *shortSink) bool {
			p := stream
			for len(p) > 0 {
				n, _ := w.Write(p)
				if n <= 0 || n > len(p) {
					return false
				}
				p = p[n:]
			}
			return string(sink.got) == string(stream)
		}
		out := []string{}
		s1 := &shortSink{k: k}
		w1, h1, err := hashio.NewHasherWriter(algs[0], s1)
		if err != nil {
			return "err"
		}
		ok1 := run(w1, s1)
		out = append(out, fmt.Sprintf("%v %d:%x", ok1, h1.Size(), h1.Sum(nil)))
		s2 := &shortSink{k: k}
		w2, hs, err := hashio.NewHasherWriters(algs, s2)
		if err != nil {
			return "err"
		}
		ok2 := run(w2, s2)
		for _, h := range hs {
			out = append(out, fmt.Sprintf("%v %d:%x", ok2, h.Size(), h.Sum(nil)))
		}
		return strings.Join(out, " | ")
	}

}

// shortSink accepts at most k bytes per Write; a Write that asked for more reports the rest with an error
type shortSink struct {
	k   int
	got []byte
}

func (s *shortSink) Write(p []byte) (int, error) {
	if len(p) <= s.k {
		s.got = append(s.got, p...)
		return len(p), nil
	}
	s.got = append(s.got, p[:s.k]...)
	return s.k, fmt.Errorf("short write: %d of %d bytes", s.k, len(p))
}
