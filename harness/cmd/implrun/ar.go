package main

import (
	"bytes"
	"fmt"
	"hash/adler32"
	"io"
	"io/ioutil"

	"pault.ag/go/debian/deb"
)

// eagerEOFReaderAt is an io.ReaderAt that reports io.EOF together with the last bytes of its source, which the
// io.ReaderAt contract allows ("may return either err == EOF or err == nil" when n == len(p) at the end of the input);
// range-request and object-store readers behave like this.
type eagerEOFReaderAt struct{ b []byte }

func (e eagerEOFReaderAt) ReadAt(p []byte, off int64) (int, error) {
	if off < 0 || off > int64(len(e.b)) {
		return 0, io.EOF
	}
	n := copy(p, e.b[off:])
	if off+int64(n) >= int64(len(e.b)) {
		return n, io.EOF
	}
	return n, nil
}

func showData(b []byte) string {
	s := adler32.Checksum(b)
	return fmt.Sprintf("%d %d %d", len(b), s&0xffff, s>>16)
}

func init() {
	iter := func(a []string, mode string) string {
		buf := []byte(arg(a, 0))
		rd := bytes.NewReader(buf)
		switch mode {
		case "sniff":
			// the caller looked at the global magic before handing the reader over: LoadAr takes an io.ReaderAt, whose
			// ReadAt does not depend on (or move) the read cursor
			rd.Read(make([]byte, 8))
			mode = ""
		case "drain":
			io.Copy(ioutil.Discard, rd) // e.g. the caller hashed the file first
			mode = ""
		}
		var src io.ReaderAt = rd
		if mode == "eagereof" {
			src = eagerEOFReaderAt{buf}
			mode = ""
		}
		if mode == "failone" {
			// a reader that breaks down behind the global magic: every later read delivers ONE byte and an error that
			// is not io.EOF (an I/O error on the medium).  Whatever that byte is, the iteration ends in an error - a
			// read error is not the end of the archive
			src = failAfterOneReaderAt{buf}
			mode = ""
		}
		if mode == "bigsection" {
			// an io.SectionReader that claims far more bytes than are behind it (an open-ended section of a file):
			// its Size() is not the length of the archive
			src = io.NewSectionReader(bytes.NewReader(buf), 0, 1<<62)
			mode = ""
		}
		ar, err := deb.LoadAr(src)
		if err != nil {
			return "notar"
		}
		type seen struct {
			e     *deb.ArEntry
			first string
		}
		var all []seen
		end := ""
		for steps := 0; ; steps++ {
			e, err := ar.Next()
			if err == io.EOF {
				end = "eof"
				break
			}
			if err != nil {
				end = "err"
				break
			}
			if e == nil {
				end = "nil-without-error"
				break
			}
			if steps > len(buf)/60+2 {
				return "timeout"
			}
			first := ""
			switch mode {
			case "skip":
				// the consumer ignores the member: the iterator must not depend on the data having been read
			case "one":
				e.Data.Read(make([]byte, 1))
			default:
				data, rerr := ioutil.ReadAll(e.Data)
				first = showData(data)
				if rerr != nil {
					first = "read-error"
				}
			}
			all = append(all, seen{e, first})
		}
		items := []string{}
		for k, s := range all {
			if mode != "" {
				// lazy consumers read every member, from its start, only now
				first := "seek-error"
				if _, err := s.e.Data.Seek(0, io.SeekStart); err == nil {
					if data, err := ioutil.ReadAll(s.e.Data); err == nil {
						first = showData(data)
					} else {
						first = "read-error"
					}
				}
				all[k].first = first
				s.first = first
			}
			// re-read after the iterator has reached the end
			re := "seek-error"
			if _, err := s.e.Data.Seek(0, io.SeekStart); err == nil {
				if data, err := ioutil.ReadAll(s.e.Data); err == nil {
					re = showData(data)
				} else {
					re = "read-error"
				}
			}
			e := s.e
			items = append(items, fmt.Sprintf("( %s %d %d %d %s %d %s re %s )", hx(e.Name), e.Timestamp, e.OwnerID, e.GroupID, hx(e.FileMode), e.Size, s.first, re))
		}
		return showList(items) + " " + end
	}
	ops["ariter"] = func(a []string) string { return iter(a, "") }
	// ariterlazy buf mode: the same archive walked by a consumer that does not read (skip) or hardly reads (one)
	// the members while iterating; everything it later reads must be what the eager consumer saw
	ops["ariterlazy"] = func(a []string) string { return iter(a[:1], arg(a, 1)) }
}

type failAfterOneReaderAt struct{ b []byte }

func (f failAfterOneReaderAt) ReadAt(p []byte, off int64) (int, error) {
	if off < 8 {
		n := copy(p, f.b[off:])
		if n < len(p) {
			return n, io.EOF
		}
		return n, nil
	}
	if off >= int64(len(f.b)) || len(p) == 0 {
		return 0, fmt.Errorf("input/output error")
	}
	p[0] = f.b[off]
	return 1, fmt.Errorf("input/output error")
}
