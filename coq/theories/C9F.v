(* C14 / C09 / C10: field names are not case-sensitive (Policy 5.1).  The decoder looks a struct field's name up exactly
   and, where there is no such field, takes the first field whose name differs from it in the case of ASCII letters only
   (Paragraph.lookupFold); the encoder writes a field of the embedded paragraph that the struct knows under another
   spelling under the struct's name, in its place, once.  This file puts that layer in front of the generic codec C9G:
   lookup_fold / decode_fold, canon_para / convert_fold, and the theorems that (1) on a paragraph whose fields are spelled
   as the struct spells them the layer is not there (so every theorem about C9G.decode and C9G.convert is a theorem about
   the code on such paragraphs - which is what the encoder writes), and (2) respelling the field names of a paragraph in
   another letter case changes nothing the decoder returns. *)
From Coq Require Import List Ascii String Bool Arith NArith Lia.
Require Import GS C9G.
Import ListNotations.

Definition lower (c : ascii) : ascii :=
  let n := N_of_ascii c in if ((65 <=? n) && (n <=? 90))%N then ascii_of_N (n + 32) else c.
Definition fold (k : str) : str := map lower k.
(* equalFoldASCII *)
Definition feq (a b : str) : bool := str_eqb (fold a) (fold b).
Lemma feq_refl a : feq a a = true.
Proof. unfold feq. destruct (str_eqb_spec (fold a) (fold a)); congruence. Qed.
Lemma feq_eq a b : feq a b = true <-> fold a = fold b.
Proof. unfold feq. destruct (str_eqb_spec (fold a) (fold b)); split; congruence. Qed.
Lemma feq_of_eq a b : str_eqb a b = true -> feq a b = true.
Proof. destruct (str_eqb_spec a b) as [->|]; [intros _; apply feq_refl|discriminate]. Qed.

(* ---- Paragraph.lookupFold ---- *)
Fixpoint first_fold (k : str) (vs : assoc) : option str :=
  match vs with (k', v) :: r => if feq k' k then Some v else first_fold k r | [] => None end.
Definition lookup_fold (k : str) (vs : assoc) : option str :=
  match lookup k vs with Some v => Some v | None => first_fold k vs end.

Definition fold_distinct (vs : assoc) : Prop := NoDup (map (fun kv => fold (fst kv)) vs).

Lemma first_fold_notin k vs : ~ In (fold k) (map (fun kv => fold (fst kv)) vs) -> first_fold k vs = None.
Proof.
  induction vs as [|[a b] r IH]; intros H; [reflexivity|]. cbn [first_fold].
  destruct (feq a k) eqn:E; [exfalso; apply H; left; cbn; now apply feq_eq|]. apply IH. intros I. apply H. now right.
Qed.
(* where no two fields differ in case only, the exact hit IS the first fold hit *)
Lemma lookup_fold_is_first_fold k vs : fold_distinct vs -> lookup_fold k vs = first_fold k vs.
Proof.
  unfold lookup_fold, fold_distinct. induction vs as [|[a b] r IH]; intros D; [reflexivity|].
  inversion D as [|? ? Hn D']; subst. cbn [lookup first_fold].
  destruct (str_eqb_spec a k) as [->|N].
  - now rewrite feq_refl.
  - destruct (feq a k) eqn:E.
    + (* a folds to k: nothing behind it does, so there is no exact k behind it either *)
      destruct (lookup k r) as [v|] eqn:L; [|reflexivity]. exfalso. apply Hn. cbn [fst].
      apply feq_eq in E. rewrite E. clear -L. induction r as [|[x y] r IH]; [discriminate|]. cbn [lookup] in L. cbn [map fst].
      destruct (str_eqb_spec x k) as [->|]; [now left|right; now apply IH].
    + exact (IH D').
Qed.

(* ---- a paragraph respelled: the same fields and values, names in another letter case ---- *)
Definition respelled (p p' : assoc) : Prop := Forall2 (fun a b => feq (fst a) (fst b) = true /\ snd a = snd b) p p'.
Lemma respelled_folds p p' : respelled p p' -> map (fun kv => fold (fst kv)) p = map (fun kv => fold (fst kv)) p'.
Proof. induction 1 as [|a b p p' [E _] _ IH]; [reflexivity|]. cbn [map]. apply feq_eq in E. now rewrite E, IH. Qed.
Lemma first_fold_respelled k p p' : respelled p p' -> first_fold k p = first_fold k p'.
Proof.
  induction 1 as [|[a v] [b w] p p' [E V] _ IH]; [reflexivity|]. cbn [fst snd] in *. subst w. cbn [first_fold].
  assert (F : feq a k = feq b k). { unfold feq. apply feq_eq in E. now rewrite E. }
  rewrite F. destruct (feq b k); [reflexivity|exact IH].
Qed.
Theorem lookup_fold_respelled k p p' : fold_distinct p -> respelled p p' -> lookup_fold k p = lookup_fold k p'.
Proof.
  intros D R. assert (D' : fold_distinct p') by (unfold fold_distinct in *; now rewrite <- (respelled_folds p p' R)).
  rewrite (lookup_fold_is_first_fold k p D), (lookup_fold_is_first_fold k p' D'). now apply first_fold_respelled.
Qed.

Section Codec.
  Variables kind value : Type.
  Variable zero_of : kind -> value.
  Variable marshal_value : value -> str.
  Variable decode_value : kind -> str -> option value.
  Notation fdesc := (C9G.fdesc kind).
  Notation schema := (C9G.schema kind).
  Notation fkey := (C9G.fkey kind).
  Notation fkind := (C9G.fkind kind).
  Notation frequired := (C9G.frequired kind).
  Notation decode := (C9G.decode kind value zero_of decode_value).
  Notation convert := (C9G.convert kind value marshal_value).

  (* decodeStruct, with the fold lookup *)
  Fixpoint decode_fold (sch : schema) (p : assoc) : option (list value) :=
    match sch with
    | [] => Some []
    | f :: sch' =>
        match lookup_fold (fkey f) p with
        | Some t => match decode_value (fkind f) t, decode_fold sch' p with Some v, Some r => Some (v :: r) | _, _ => None end
        | None => if frequired f then None
                  else option_map (cons (zero_of (fkind f))) (decode_fold sch' p)
        end
    end.

  (* the fields are spelled as the struct spells them: a struct field that is not there exactly is not there in another
     letter case either *)
  Definition spelled (sch : schema) (p : assoc) : Prop :=
    forall f, In f sch -> lookup (fkey f) p = None -> first_fold (fkey f) p = None.
  Theorem decode_fold_spelled : forall sch p, spelled sch p -> decode_fold sch p = decode sch p.
  Proof.
    induction sch as [|f sch IH]; intros p S; [reflexivity|]. cbn [decode_fold C9G.decode].
    assert (S' : spelled sch p) by (intros g Hg; apply S; now right).
    rewrite (IH p S'). unfold lookup_fold. destruct (lookup (fkey f) p) as [t|] eqn:L; [reflexivity|].
    now rewrite (S f (or_introl eq_refl) L).
  Qed.
  (* respelling the field names changes nothing the decoder returns *)
  Theorem decode_fold_respelled : forall sch p p', fold_distinct p -> respelled p p' -> decode_fold sch p = decode_fold sch p'.
  Proof.
    induction sch as [|f sch IH]; intros p p' D R; [reflexivity|]. cbn [decode_fold].
    now rewrite (lookup_fold_respelled (fkey f) p p' D R), (IH p p' D R).
  Qed.

  (* decoding succeeds with r exactly when every schema field, looked up in the paragraph - exactly, or else in another
     letter case -, decodes to its component of r (absent optional fields give the zero value) *)
  Definition field_spec_fold (p : assoc) (f : fdesc) (v : value) : Prop :=
    match lookup_fold (fkey f) p with
    | Some t => decode_value (fkind f) t = Some v
    | None => frequired f = false /\ v = zero_of (fkind f)
    end.
  Theorem decode_fold_pointwise : forall sch p r, decode_fold sch p = Some r <-> Forall2 (field_spec_fold p) sch r.
  Proof.
    induction sch as [|f sch IH]; intros p r; cbn [decode_fold].
    - split; [intros E; inversion E; constructor|intros F; inversion F; reflexivity].
    - unfold field_spec_fold at 1. split.
      + destruct (lookup_fold (fkey f) p) as [t|] eqn:L.
        * destruct (decode_value (fkind f) t) as [v|] eqn:Dv; [|discriminate].
          destruct (decode_fold sch p) as [r'|] eqn:Dr; [|discriminate]. intros E. inversion E; subst.
          constructor; [unfold field_spec_fold; now rewrite L|now apply IH].
        * destruct (frequired f) eqn:R; [discriminate|]. destruct (decode_fold sch p) as [r'|] eqn:Dr; [|discriminate].
          cbn. intros E. inversion E; subst. constructor; [unfold field_spec_fold; rewrite L; auto|now apply IH].
      + intros F. inversion F as [|? v ? r' Hf Hr]; subst. apply IH in Hr. unfold field_spec_fold in Hf.
        destruct (lookup_fold (fkey f) p) as [t|].
        * now rewrite Hf, Hr.
        * destruct Hf as [-> ->]. now rewrite Hr.
    Qed.
  (* a field whose name is no struct field's name in ANY letter case does not reach the struct, wherever it stands *)
  Lemma first_fold_insert_other k v j pre post : feq k j = false -> first_fold j (pre ++ (k, v) :: post) = first_fold j (pre ++ post).
  Proof.
    intros N. induction pre as [|[a b] pre IH]; cbn [app first_fold]; [now rewrite N|]. destruct (feq a j); [reflexivity|exact IH].
  Qed.
  Lemma lookup_fold_insert_other k v j pre post : feq k j = false ->
    lookup_fold j (pre ++ (k, v) :: post) = lookup_fold j (pre ++ post).
  Proof.
    intros N. unfold lookup_fold. assert (Nk : j <> k) by (intros ->; now rewrite feq_refl in N).
    rewrite (C9G.lookup_insert_other k v j pre post Nk). now rewrite (first_fold_insert_other k v j pre post N).
  Qed.
  Theorem decode_fold_ignores_unknown_field : forall sch k v pre post, (forall f, In f sch -> feq k (fkey f) = false) ->
    decode_fold sch (pre ++ (k, v) :: post) = decode_fold sch (pre ++ post).
  Proof.
    induction sch as [|f sch IH]; intros k v pre post N; [reflexivity|]. cbn [decode_fold].
    rewrite (lookup_fold_insert_other k v (fkey f) pre post (N f (or_introl eq_refl))).
    rewrite (IH k v pre post (fun g Hg => N g (or_intror Hg))). reflexivity.
  Qed.

  (* ---- convertToParagraph: a field of the embedded paragraph that the struct knows under another spelling is written
     under the struct's name, in its place, once ---- *)
  Definition canon_key (skeys : list str) (k : str) : str :=
    if mem k skeys then k
    else match find (fun n => feq n k) skeys with
         | Some n => n
         | None => k
         end.
  Fixpoint dedupe (seen : list str) (l : list str) : list str :=
    match l with
    | [] => []
    | k :: r => if mem k seen then dedupe seen r else k :: dedupe (k :: seen) r
    end.
  Definition canon_para (skeys : list str) (found : para) : para :=
    let ck := canon_key skeys in
    {| order := dedupe [] (map ck (order found)); values := map (fun kv => (ck (fst kv), snd kv)) (values found) |}.
  Definition convert_fold (sch : schema) (r : list value) (found : para) : para :=
    convert sch r (canon_para (map fkey sch) found).

  (* a paragraph none of whose fields is another spelling of a struct field is left as it is *)
  Definition no_respelling (skeys : list str) (ks : list str) : Prop :=
    forall k, In k ks -> mem k skeys = false -> find (fun n => feq n k) skeys = None.
  Lemma canon_key_id skeys k : (mem k skeys = false -> find (fun n => feq n k) skeys = None) -> canon_key skeys k = k.
  Proof. unfold canon_key. intros H. destruct (mem k skeys); [reflexivity|]. now rewrite (H eq_refl). Qed.
  Lemma dedupe_nodup : forall l seen, NoDup l -> (forall k, In k l -> mem k seen = false) -> dedupe seen l = l.
  Proof.
    induction l as [|k r IH]; intros seen D H; [reflexivity|]. inversion D as [|? ? Hn D']; subst. cbn [dedupe].
    rewrite (H k (or_introl eq_refl)). f_equal. apply IH; [exact D'|].
    intros j Hj. change (mem j (k :: seen)) with (str_eqb j k || mem j seen). rewrite (H j (or_intror Hj)).
    destruct (str_eqb_spec j k) as [->|]; [contradiction|reflexivity].
  Qed.
  Theorem convert_fold_spelled sch r found : NoDup (order found) ->
    no_respelling (map fkey sch) (order found) -> no_respelling (map fkey sch) (map fst (values found)) ->
    convert_fold sch r found = convert sch r found.
  Proof.
    intros D N1 N2. unfold convert_fold. f_equal. unfold canon_para. destruct found as [o v]. cbn [order values] in *. f_equal.
    - rewrite (map_ext_in _ (fun k => k)); [rewrite map_id; apply dedupe_nodup; [exact D|reflexivity]|].
      intros k Hk. apply canon_key_id. now apply N1.
    - rewrite (map_ext_in _ (fun kv => kv)); [apply map_id|]. intros [k w] Hk. cbn [fst snd]. f_equal.
      apply canon_key_id. apply N2. apply in_map_iff. now exists (k, w).
  Qed.
End Codec.
(* ---- what Marshal writes is spelled as the struct spells it: the round trip of C9G is the round trip of the code ---- *)
Lemma first_fold_some k vs v : first_fold k vs = Some v -> exists k', In k' (map fst vs) /\ feq k' k = true.
Proof.
  induction vs as [|[a b] r IH]; [discriminate|]. cbn [first_fold map fst]. destruct (feq a k) eqn:E.
  - intros _. exists a. split; [now left|exact E].
  - intros H. destruct (IH H) as (k'&I&F). exists k'. split; [now right|exact F].
Qed.
Lemma lookup_in k vs : In k (map fst vs) -> lookup k vs <> None.
Proof.
  induction vs as [|[a b] r IH]; [contradiction|]. cbn [map fst lookup]. destruct (str_eqb_spec a k); [discriminate|].
  intros [E|I]; [congruence|now apply IH].
Qed.
Lemma nodup_map_inj {A B} (h : A -> B) : forall l x y, NoDup (map h l) -> In x l -> In y l -> h x = h y -> x = y.
Proof.
  induction l as [|a l IH]; intros x y D Hx Hy E; [contradiction|]. cbn [map] in D. inversion D as [|? ? Hn D']; subst.
  destruct Hx as [->|Hx], Hy as [->|Hy]; [reflexivity| | |now apply IH].
  - exfalso. apply Hn. rewrite E. now apply in_map.
  - exfalso. apply Hn. rewrite <- E. now apply in_map.
Qed.
Section Roundtrip.
  Variables kind value : Type.
  Variable kind_of : value -> kind.
  Variable zero_of : kind -> value.
  Variable marshal_value : value -> str.
  Variable decode_value : kind -> str -> option value.
  Variable wfv : value -> Prop.
  Hypothesis value_roundtrip : forall v, wfv v -> marshal_value v <> [] -> decode_value (kind_of v) (marshal_value v) = Some v.
  Hypothesis empty_marshal : forall v, wfv v -> marshal_value v = [] -> v = zero_of (kind_of v).
  (* no two fields of the struct differ in the letter case of their names only (checked for every struct of the library: the
     regenerated schemas, C09_library_schemas_fold_distinct) *)
  Definition keys_fold_distinct (sch : C9G.schema kind) : Prop := NoDup (map (fun f => fold (C9G.fkey kind f)) sch).
  Lemma own_spelled sch r : keys_fold_distinct sch -> spelled kind sch (C9G.own kind value marshal_value sch r).
  Proof.
    intros D f Hf L. destruct (first_fold (C9G.fkey kind f) (C9G.own kind value marshal_value sch r)) as [v|] eqn:F; [|reflexivity].
    exfalso. destruct (first_fold_some _ _ _ F) as (k'&I&E).
    pose proof (C9G.own_keys kind value marshal_value sch r k' I) as Ik. apply in_map_iff in Ik as (g&Eg&Hg). subst k'.
    assert (g = f). { apply (nodup_map_inj (fun f => fold (C9G.fkey kind f)) sch g f D Hg Hf). now apply feq_eq. }
    subst g. exact (lookup_in _ _ I L).
  Qed.
  Theorem roundtrip_fold sch r : C9G.typed kind value kind_of marshal_value decode_value wfv sch r ->
    C9G.keys_distinct kind sch -> keys_fold_distinct sch ->
    decode_fold kind value zero_of decode_value sch
      (values (convert_fold kind value marshal_value sch r {| order := []; values := [] |})) = Some r.
  Proof.
    intros T D FD. unfold convert_fold, canon_para. cbn [order values map dedupe].
    rewrite decode_fold_spelled.
    - now apply (C9G.C09_roundtrip kind value kind_of zero_of marshal_value decode_value wfv value_roundtrip empty_marshal).
    - unfold C9G.convert. cbn [values order filter]. rewrite app_nil_r. now apply own_spelled.
  Qed.
End Roundtrip.
Print Assumptions roundtrip_fold.
Print Assumptions decode_fold_spelled.
Print Assumptions decode_fold_respelled.
Print Assumptions decode_fold_pointwise.
Print Assumptions decode_fold_ignores_unknown_field.
Print Assumptions convert_fold_spelled.
