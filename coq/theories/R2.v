(* deb822 reader / writer: model of control/parse.go AFTER the drafted repairs *)
From Coq Require Import List Ascii String Bool Arith Lia.
Require Import GS.
Import ListNotations.

Definition assoc := list (str * str).
Fixpoint lookup (k : str) (vs : assoc) : str :=
  match vs with (k', v) :: r => if str_eqb k' k then v else lookup k r | [] => [] end.
Fixpoint mem (k : str) (vs : assoc) : bool :=
  match vs with (k', _) :: r => str_eqb k' k || mem k r | [] => false end.
Fixpoint setv (k v : str) (vs : assoc) : assoc :=
  match vs with
  | (k', v') :: r => if str_eqb k' k then (k', v) :: r else (k', v') :: setv k v r
  | [] => [(k, v)]
  end.

Record para := { order : list str; values : assoc }.
Definition empty_para : para := {| order := []; values := [] |}.

Definition colon : ascii := ":"%char.
Definition hash : ascii := "#"%char.
Definition dot : ascii := "."%char.

(* strings.SplitN(line, ":", 2) *)
Fixpoint cut_colon (cur : str) (x : str) : option (str * str) :=
  match x with
  | [] => None
  | c :: r => if ceq c colon then Some (rev cur, r) else cut_colon (c :: cur) r
  end.

Definition is_blank_line (l : str) : bool := str_eqb l [] || str_eqb l [cr].
Definition starts (c : ascii) (l : str) : bool := match l with x :: _ => ceq x c | [] => false end.

Definition dashc : ascii := "-"%char.
Inductive rres := RPara (p : para) (rest : list str) | REOF | RErr.

Definition cont_value (v c : str) : str :=
  if str_eqb v [] then c ++ [nl]
  else (if has_suffix [nl] v then v else v ++ [nl]) ++ c ++ [nl].

Fixpoint next (p : para) (last : str) (ls : list str) : rres :=
  match ls with
  | [] => match order p with [] => REOF | _ => RPara p [] end
  | l :: rest =>
      if is_blank_line l then
        match order p with [] => next p last rest | _ => RPara p rest end
      else if starts hash l then next p last rest
      else if starts sp l || starts tab l then
        match order p with
        | [] => if str_eqb (trim_space l) [] then next p last rest else RErr
        | _ =>
            let c := trim_right (tl l) in
            let c := if str_eqb c [dot] then [] else c in
            next {| order := order p; values := setv last (cont_value (lookup last (values p)) c) (values p) |} last rest
        end
      else
        match cut_colon [] l with
        | None => RErr
        | Some (k, v) =>
            let key := trim_space k in
            let value := trim_space v in
            if starts hash key || starts dashc key then RErr     (* Policy 5.1: a field name begins with neither '#' nor '-' (repair 1b827a1) *)
            else if mem key (values p) then RErr
            else next {| order := order p ++ [key]; values := values p ++ [(key, value)] |} key rest
        end
  end.

Fixpoint all_fuel (fuel : nat) (ls : list str) : option (list para) :=
  match fuel with
  | O => None
  | S f => match next empty_para [] ls with
           | REOF => Some []
           | RErr => None
           | RPara p rest => option_map (cons p) (all_fuel f rest)
           end
  end.
Definition read_all (x : str) : option (list para) :=
  let ls := lines_of x in all_fuel (S (List.length ls)) ls.

(* ---- writer ---- *)
Definition dot_line (l : str) : str := if str_eqb (trim_space l) [] then [dot] else l.

Definition fold_lines (v : str) : list str :=
  let ls := split nl (trim_suffix [nl] v) in
  let ls := match ls with
            | l0 :: _ => if str_eqb (trim_left l0) l0 then ls else [] :: ls
            | [] => ls end in
  match ls with
  | [] => []
  | l0 :: r => l0 :: map dot_line r
  end.
Definition write_field (k v : str) : str := k ++ [colon; sp] ++ join [nl; sp] (fold_lines v) ++ [nl].
Definition write_para (p : para) : str :=
  List.concat (map (fun k => write_field k (lookup k (values p))) (order p)).


(* ================= proofs ================= *)
Definition unlines (ls : list str) : str := List.concat (map (fun l => l ++ [nl]) ls).

Lemma unlines_join ls : ls <> [] -> unlines ls = join [nl] ls ++ [nl].
Proof.
  induction ls as [|x r IH]; [congruence|]. intros _. destruct r as [|y r'].
  - cbn. now rewrite app_nil_r.
  - change (unlines (x :: y :: r')) with ((x ++ [nl]) ++ unlines (y :: r')).
    rewrite IH by discriminate. change (join [nl] (x :: y :: r')) with (x ++ [nl] ++ join [nl] (y :: r')).
    now rewrite <- !app_assoc.
Qed.

Lemma join_snoc_nil d ls : ls <> [] -> join [d] (ls ++ [[]]) = join [d] ls ++ [d].
Proof.
  induction ls as [|x r IH]; [congruence|]. intros _. destruct r as [|y r'].
  - cbn. reflexivity.
  - change ((x :: y :: r') ++ [[]]) with (x :: (y :: r') ++ [[]]).
    change (join [d] (x :: (y :: r') ++ [[]])) with (x ++ [d] ++ join [d] ((y :: r') ++ [[]])).
    rewrite IH by discriminate. change (join [d] (x :: y :: r')) with (x ++ [d] ++ join [d] (y :: r')).
    now rewrite <- !app_assoc.
Qed.

Lemma lines_of_nonempty x : x <> [] ->
  lines_of x = match rev (split nl x) with [] :: r => rev r | _ => split nl x end.
Proof. destruct x; [congruence|reflexivity]. Qed.

Theorem lines_of_unlines ls : Forall (free nl) ls -> lines_of (unlines ls) = ls.
Proof.
  intros H. destruct ls as [|x r]; [reflexivity|].
  rewrite unlines_join by discriminate. rewrite <- join_snoc_nil by discriminate.
  rewrite lines_of_nonempty.
  - rewrite split_join.
    + rewrite rev_app_distr. change (rev [[]] ++ rev (x :: r)) with (@nil ascii :: rev (x :: r)).
      cbv iota beta. apply rev_involutive.
    + destruct r; discriminate.
    + apply Forall_app. split; [exact H|]. repeat constructor.
  - rewrite join_snoc_nil by discriminate. destruct (join [nl] (x :: r)); discriminate.
Qed.

(* a field as lines *)
Definition field_lines (k : str) (ls : list str) : list str :=
  match ls with [] => [k ++ [colon; sp]] | l0 :: r => (k ++ [colon; sp] ++ l0) :: map (cons sp) r end.

Lemma write_field_lines k v : write_field k v = unlines (field_lines k (fold_lines v)).
Proof.
  unfold write_field. destruct (fold_lines v) as [|l0 r].
  - unfold unlines. cbn [field_lines map List.concat join]. rewrite ?app_nil_r, <- ?app_assoc. reflexivity.
  - unfold field_lines. revert l0. induction r as [|x r IH]; intros l0.
    + unfold unlines. cbn [map List.concat join]. rewrite ?app_nil_r, <- ?app_assoc. reflexivity.
    + change (join [nl; sp] (l0 :: x :: r)) with (l0 ++ [nl; sp] ++ join [nl; sp] (x :: r)).
      cbn [map]. change (unlines ((k ++ [colon; sp] ++ l0) :: (sp :: x) :: map (cons sp) r))
        with (((k ++ [colon; sp] ++ l0) ++ [nl]) ++ unlines ((sp :: x) :: map (cons sp) r)).
      specialize (IH x).
      assert (E : unlines ((sp :: x) :: map (cons sp) r) = sp :: join [nl; sp] (x :: r) ++ [nl]).
      { clear IH. revert x. induction r as [|y r IH2]; intros x.
        - cbn. now rewrite app_nil_r.
        - change (join [nl; sp] (x :: y :: r)) with (x ++ [nl; sp] ++ join [nl; sp] (y :: r)).
          cbn [map]. change (unlines ((sp :: x) :: (sp :: y) :: map (cons sp) r))
            with (((sp :: x) ++ [nl]) ++ unlines ((sp :: y) :: map (cons sp) r)).
          rewrite IH2. cbn [app]. now rewrite <- !app_assoc. }
      rewrite E. cbn [app]. now rewrite <- !app_assoc.
Qed.

(* association-list facts *)
Lemma lookup_setv k v vs : lookup k (setv k v vs) = v.
Proof.
  induction vs as [|[k' v'] r IH]; cbn.
  - destruct (str_eqb_spec k k); congruence.
  - destruct (str_eqb_spec k' k) as [E|E]; cbn; destruct (str_eqb_spec k' k); try congruence.
Qed.
Lemma setv_setv k v1 v2 vs : setv k v2 (setv k v1 vs) = setv k v2 vs.
Proof.
  induction vs as [|[k' v'] r IH]; cbn.
  - destruct (str_eqb_spec k k); congruence.
  - destruct (str_eqb_spec k' k) as [E|E]; cbn; destruct (str_eqb_spec k' k); try congruence.
Qed.
Lemma lookup_app_new k v vs : mem k vs = false -> lookup k (vs ++ [(k, v)]) = v.
Proof.
  induction vs as [|[k' v'] r IH]; cbn.
  - destruct (str_eqb_spec k k); congruence.
  - intros H. apply orb_false_iff in H as [H1 H2]. rewrite H1. auto.
Qed.
Lemma setv_app_new k v v2 vs : mem k vs = false -> setv k v2 (vs ++ [(k, v)]) = vs ++ [(k, v2)].
Proof.
  induction vs as [|[k' v'] r IH]; cbn.
  - destruct (str_eqb_spec k k); congruence.
  - intros H. apply orb_false_iff in H as [H1 H2]. rewrite H1. now rewrite IH.
Qed.

(* continuation lines *)
Definition norm_cont (c : str) : str := if str_eqb (trim_right c) [dot] then [] else trim_right c.
Definition read_conts (v : str) (cs : list str) : str := fold_left (fun v c => cont_value v (norm_cont c)) cs v.

Lemma setv_lookup_id k vs : mem k vs = true -> setv k (lookup k vs) vs = vs.
Proof.
  induction vs as [|[k' v'] r IH]; cbn; [discriminate|].
  destruct (str_eqb_spec k' k); cbn; [reflexivity|]. intros H. now rewrite IH.
Qed.
Lemma mem_setv k v vs : mem k (setv k v vs) = true.
Proof.
  induction vs as [|[k' v'] r IH]; cbn.
  - destruct (str_eqb_spec k k); [reflexivity|congruence].
  - destruct (str_eqb_spec k' k) as [E|E]; cbn; destruct (str_eqb_spec k' k); try congruence; auto.
Qed.

Lemma sp_not_cr : sp <> cr. Proof. discriminate. Qed.

Lemma next_conts : forall cs p last more, order p <> [] -> mem last (values p) = true ->
  next p last (map (cons sp) cs ++ more) =
  next {| order := order p; values := setv last (read_conts (lookup last (values p)) cs) (values p) |} last more.
Proof.
  induction cs as [|c cs IH]; intros p last more Ho Hm.
  - cbn [map app read_conts fold_left]. rewrite setv_lookup_id by exact Hm. destruct p; reflexivity.
  - cbn [map app]. cbn [next].
    assert (B : is_blank_line (sp :: c) = false).
    { unfold is_blank_line. destruct (str_eqb_spec (sp :: c) []); [discriminate|].
      destruct (str_eqb_spec (sp :: c) [cr]) as [E|]; [inversion E|reflexivity]. }
    rewrite B. change (starts hash (sp :: c)) with false. change (starts sp (sp :: c)) with true.
    cbn [orb tl]. destruct (order p) as [|o os] eqn:Eo; [congruence|].
    cbv zeta. change (if str_eqb (trim_right c) [dot] then [] else trim_right c) with (norm_cont c).
    set (p' := {| order := o :: os; values := setv last (cont_value (lookup last (values p)) (norm_cont c)) (values p) |}).
    rewrite (IH p' last more); [ | subst p'; cbn; discriminate | subst p'; cbn; apply mem_setv ].
    subst p'. cbn [order values]. rewrite lookup_setv, setv_setv. reflexivity.
Qed.

(* ---------- key line ---------- *)
Record key_ok (k : str) : Prop := {
  k_ne : k <> []; k_nocolon : free colon k; k_nonl : free nl k;
  k_lead : no_lead k; k_trail : no_trail k; k_nohash : starts hash k = false; k_nodash : starts dashc k = false }.

Lemma cut_colon_word : forall k cur r, free colon k -> cut_colon cur (k ++ colon :: r) = Some (rev cur ++ k, r).
Proof.
  induction k as [|c k IH]; intros cur r H.
  - cbn. destruct (ceq_spec colon colon); [|congruence]. now rewrite app_nil_r.
  - inversion H as [|? ? Hc Hk]; subst. cbn [app cut_colon]. destruct (ceq_spec c colon); [contradiction|].
    rewrite IH by assumption. cbn [rev]. now rewrite <- app_assoc.
Qed.

Lemma trim_space_lead_sp x : trim_space (sp :: x) = trim_space x.
Proof. reflexivity. Qed.

Lemma next_keyline p last k l0 rest : key_ok k -> mem k (values p) = false ->
  next p last ((k ++ [colon; sp] ++ l0) :: rest) =
  next {| order := order p ++ [k]; values := values p ++ [(k, trim_space l0)] |} k rest.
Proof.
  intros [Hne Hcol Hnl Hlead Htrail Hhash Hdash] Hm.
  assert (C : cut_colon [] (k ++ [colon; sp] ++ l0) = Some (k, sp :: l0))
    by (exact (cut_colon_word k [] (sp :: l0) Hcol)).
  destruct k as [|c k']; [congruence|]. cbn [no_lead] in Hlead. cbn [starts] in Hhash, Hdash.
  set (X := (c :: k') ++ [colon; sp] ++ l0) in *.
  assert (HX : X = c :: (k' ++ [colon; sp] ++ l0)) by reflexivity.
  assert (B : is_blank_line X = false).
  { rewrite HX. unfold is_blank_line. destruct (str_eqb_spec (c :: k' ++ [colon; sp] ++ l0) []); [discriminate|].
    destruct (str_eqb_spec (c :: k' ++ [colon; sp] ++ l0) [cr]) as [E|]; [|reflexivity].
    inversion E; subst. discriminate Hlead. }
  assert (H1 : starts hash X = false) by (rewrite HX; exact Hhash).
  assert (H2 : starts sp X = false).
  { rewrite HX. cbn [starts]. destruct (ceq_spec c sp); [subst; discriminate Hlead|reflexivity]. }
  assert (H3 : starts tab X = false).
  { rewrite HX. cbn [starts]. destruct (ceq_spec c tab); [subst; discriminate Hlead|reflexivity]. }
  cbn [next]. rewrite B, H1, H2, H3, C. cbn [orb].
  rewrite (trim_space_id (c :: k')) by assumption. cbn [starts]. rewrite Hhash, Hdash. cbn [orb]. rewrite trim_space_lead_sp, Hm. reflexivity.
Qed.

(* ---------- what the continuation lines add up to ---------- *)
Lemma has_suffix_nl_snoc w : has_suffix [nl] (w ++ [nl]) = true.
Proof.
  unfold has_suffix, has_prefix. rewrite rev_app_distr. cbn [rev app List.length firstn].
  destruct (str_eqb_spec [nl] [nl]); congruence.
Qed.
Lemma has_suffix_nl_free w : w <> [] -> free nl w -> has_suffix [nl] w = false.
Proof.
  intros Hne Hf. unfold has_suffix, has_prefix.
  assert (R : rev w <> []) by (intros E; apply Hne; now rewrite <- (rev_involutive w), E).
  destruct (rev w) as [|c r] eqn:E; [congruence|]. cbn [rev app List.length firstn].
  destruct (str_eqb_spec [c] [nl]) as [E2|]; [|reflexivity]. inversion E2; subst.
  assert (In nl w) by (apply in_rev; rewrite E; now left).
  unfold free in Hf. rewrite Forall_forall in Hf. exfalso. now apply (Hf nl).
Qed.

Definition wf_cont' (c : str) : Prop := free nl c /\ trim_right c = c /\ c <> [dot].
Definition wf_cont (c : str) : Prop := free nl c /\ norm_cont c = c.
Lemma wf_cont_of c : wf_cont' c -> wf_cont c.
Proof.
  intros (Hf&Ht&Hd). split; [exact Hf|]. unfold norm_cont. rewrite Ht.
  destruct (str_eqb_spec c [dot]); [contradiction|reflexivity].
Qed.

Lemma cont_value_term w c : cont_value (w ++ [nl]) c = (w ++ [nl] ++ c) ++ [nl].
Proof.
  unfold cont_value. destruct (str_eqb_spec (w ++ [nl]) []) as [E|_]; [destruct w; discriminate|].
  rewrite has_suffix_nl_snoc. now rewrite <- !app_assoc.
Qed.
Lemma cont_value_first l0 c : l0 <> [] -> free nl l0 -> cont_value l0 c = (l0 ++ [nl] ++ c) ++ [nl].
Proof.
  intros Hne Hf. unfold cont_value. destruct (str_eqb_spec l0 []); [contradiction|].
  rewrite (has_suffix_nl_free l0 Hne Hf). now rewrite <- !app_assoc.
Qed.
Lemma cont_value_empty c : cont_value [] c = c ++ [nl].
Proof. unfold cont_value. destruct (str_eqb_spec [] []); [reflexivity|congruence]. Qed.
Lemma read_conts_cons v c cs : read_conts v (c :: cs) = read_conts (cont_value v (norm_cont c)) cs.
Proof. reflexivity. Qed.

Lemma read_conts_terminated : forall cs w, Forall wf_cont cs ->
  read_conts (w ++ [nl]) cs = (w ++ [nl]) ++ unlines cs.
Proof.
  induction cs as [|c cs IH]; intros w H.
  - cbn. now rewrite app_nil_r.
  - inversion H as [|? ? [Hf Hn] Hcs]; subst. rewrite read_conts_cons, Hn, cont_value_term.
    rewrite IH by assumption. unfold unlines. cbn [map List.concat]. now rewrite <- !app_assoc.
Qed.

Lemma read_conts_first l0 c cs : l0 <> [] -> free nl l0 -> Forall wf_cont (c :: cs) ->
  read_conts l0 (c :: cs) = l0 ++ [nl] ++ unlines (c :: cs).
Proof.
  intros Hne Hf H. inversion H as [|? ? [Hfc Hn] Hcs]; subst.
  rewrite read_conts_cons, Hn, cont_value_first by assumption.
  rewrite read_conts_terminated by assumption. unfold unlines. cbn [map List.concat]. now rewrite <- !app_assoc.
Qed.

Lemma read_conts_empty c cs : Forall wf_cont (c :: cs) -> read_conts [] (c :: cs) = unlines (c :: cs).
Proof.
  intros H. inversion H as [|? ? [Hfc Hn] Hcs]; subst.
  rewrite read_conts_cons, Hn, cont_value_empty.
  rewrite read_conts_terminated by assumption. unfold unlines. cbn [map List.concat]. now rewrite <- !app_assoc.
Qed.

(* dot encoding is undone by norm_cont *)
Lemma trim_left_nil x : trim_left x = [] -> all_space x.
Proof.
  induction x as [|c r IH]; cbn [trim_left]; [constructor|]. destruct (is_space c) eqn:E; [|discriminate].
  intros H. constructor; [exact E|exact (IH H)].
Qed.
Lemma all_space_rev x : all_space x -> all_space (rev x).
Proof. unfold all_space. apply Forall_rev. Qed.
Lemma trim_right_all x : all_space x -> trim_right x = [].
Proof. intros H. unfold trim_right. now rewrite trim_left_all by (now apply all_space_rev). Qed.
Lemma trim_space_nil x : trim_space x = [] -> all_space x.
Proof.
  unfold trim_space, trim_right. intros H.
  assert (E : trim_left (rev (trim_left x)) = []).
  { apply (f_equal (@rev ascii)) in H. now rewrite rev_involutive in H. }
  apply trim_left_nil in E. apply all_space_rev in E. rewrite rev_involutive in E.
  (* trim_left x is all spaces but has no leading space: it is empty *)
  pose proof (no_lead_trim_left x) as NL.
  destruct (trim_left x) as [|c r] eqn:T; [now apply trim_left_nil|].
  inversion E; subst. cbn in NL. congruence.
Qed.

Lemma norm_dot_line c : wf_cont' c -> norm_cont (dot_line c) = c.
Proof.
  intros (Hf&Ht&Hd). unfold dot_line. destruct (str_eqb_spec (trim_space c) []) as [E|E].
  - apply trim_space_nil in E. rewrite (trim_right_all c E) in Ht. subst c. reflexivity.
  - unfold norm_cont. rewrite Ht. destruct (str_eqb_spec c [dot]); [contradiction|reflexivity].
Qed.

(* ---------- one field, written then read ---------- *)
Lemma trim_suffix_snoc w : trim_suffix [nl] (w ++ [nl]) = w.
Proof.
  unfold trim_suffix. rewrite has_suffix_nl_snoc. rewrite app_length. cbn [List.length].
  replace (List.length w + 1 - 1) with (List.length w) by lia.
  rewrite firstn_app, Nat.sub_diag, firstn_all. cbn. now rewrite app_nil_r.
Qed.
Lemma trim_suffix_none w : w <> [] -> free nl w -> trim_suffix [nl] w = w.
Proof. intros H1 H2. unfold trim_suffix. now rewrite has_suffix_nl_free. Qed.

Lemma read_conts_dot v cs : Forall wf_cont' cs -> read_conts v (map dot_line cs) = read_conts v cs.
Proof.
  revert v. induction cs as [|c cs IH]; intros v H; [reflexivity|].
  inversion H as [|? ? Hc Hcs]; subst. cbn [map]. rewrite !read_conts_cons.
  rewrite (norm_dot_line c Hc). destruct (wf_cont_of c Hc) as [_ Hn]. rewrite Hn. now apply IH.
Qed.

Lemma dot_line_free c : free nl c -> free nl (dot_line c).
Proof. intros H. unfold dot_line. destruct (str_eqb (trim_space c) []); [repeat constructor; discriminate|exact H]. Qed.

Lemma free_app d x y : free d x -> free d y -> free d (x ++ y).
Proof. unfold free. intros. apply Forall_app. auto. Qed.

Definition reader_form (l0 : str) (cs : list str) : str :=
  match cs with [] => l0 | _ => l0 ++ [nl] ++ unlines cs end.

Lemma fold_lines_form l0 cs : l0 <> [] -> free nl l0 -> no_lead l0 -> Forall wf_cont' cs ->
  fold_lines (reader_form l0 cs) = l0 :: map dot_line cs.
Proof.
  intros Hne Hf Hl Hcs. unfold fold_lines.
  assert (S : split nl (trim_suffix [nl] (reader_form l0 cs)) = l0 :: cs).
  { destruct cs as [|c cs'].
    - cbn [reader_form]. rewrite trim_suffix_none by assumption. now apply split_one.
    - cbn [reader_form]. rewrite unlines_join by discriminate.
      replace (l0 ++ [nl] ++ join [nl] (c :: cs') ++ [nl]) with (join [nl] (l0 :: c :: cs') ++ [nl])
        by (change (join [nl] (l0 :: c :: cs')) with (l0 ++ [nl] ++ join [nl] (c :: cs')); now rewrite <- !app_assoc).
      rewrite trim_suffix_snoc. apply split_join; [discriminate|].
      constructor; [exact Hf|]. rewrite Forall_forall in *. intros x Hx. now destruct (Hcs x Hx). }
  rewrite S. rewrite (trim_left_id l0 Hl). destruct (str_eqb_spec l0 l0); [reflexivity|congruence].
Qed.

Lemma mem_app_new k v vs : mem k (vs ++ [(k, v)]) = true.
Proof.
  induction vs as [|[k' v'] r IH]; cbn.
  - destruct (str_eqb_spec k k); [reflexivity|congruence].
  - rewrite IH. apply orb_true_r.
Qed.

Theorem field_write_read p last k l0 cs more :
  key_ok k -> mem k (values p) = false ->
  l0 <> [] -> free nl l0 -> no_lead l0 -> no_trail l0 -> Forall wf_cont' cs ->
  next p last (lines_of (write_field k (reader_form l0 cs)) ++ more) =
  next {| order := order p ++ [k]; values := values p ++ [(k, reader_form l0 cs)] |} k more.
Proof.
  intros Hk Hm Hne Hf Hl Ht Hcs.
  rewrite write_field_lines, fold_lines_form by assumption.
  rewrite lines_of_unlines.
  2:{ cbn [field_lines]. constructor.
      - apply free_app; [apply (k_nonl k Hk)|]. apply free_app; [repeat constructor; discriminate|exact Hf].
      - rewrite Forall_forall. intros x Hx. apply in_map_iff in Hx as (y&<-&Hy). apply in_map_iff in Hy as (z&<-&Hz).
        constructor; [discriminate|]. apply dot_line_free. rewrite Forall_forall in Hcs. now destruct (Hcs z Hz). }
  cbn [field_lines]. rewrite <- app_comm_cons. rewrite next_keyline by assumption.
  rewrite (trim_space_id l0 Hl Ht).
  rewrite next_conts.
  2:{ cbn. destruct (order p); discriminate. }
  2:{ cbn. apply mem_app_new. }
  cbn [order values]. rewrite (lookup_app_new k l0 (values p) Hm), (setv_app_new k l0 _ (values p) Hm).
  rewrite read_conts_dot by assumption.
  destruct cs as [|c cs']; [reflexivity|].
  rewrite read_conts_first; [reflexivity|assumption|assumption|].
  rewrite Forall_forall in *. intros x Hx. apply wf_cont_of. now apply Hcs.
Qed.
Print Assumptions field_write_read.
